#!/bin/bash
# mutate.sh <property> <patch-file|sed-expr-file> : apply a change to a scratch copy of /repo and run the check there.
# Exit status is the check's; the scratch copy is removed afterwards.
set -u
PROP="$1"; PATCH="$(readlink -f "$2")"
S=$(mktemp -d /var/tmp/mut.XXXXXX)
trap 'cd /; rm -rf "$S"' EXIT
cp -r /repo/. "$S/" && rm -rf "$S/.git"
cd "$S"
if ! patch -p1 -s < "$PATCH"; then echo "PATCH-FAILED $PATCH"; exit 3; fi
cd /verif
./check "$PROP" --repo "$S" "${@:3}"
