package main

// tryReplay: run the real function on the inputs of a solver model (adapters added per function).
func tryReplay(e *Engine, o *Obligation, dir string) (bool, string) {
	return false, "no replay adapter for " + o.Func
}
