package main

// Replay of solver counterexamples on the real code.
//
// Supported: safety obligations (index, slice, make, nil, division, map assignment, explicit panic,
// unsafe width, type assertion) of functions whose parameters are byte slices / strings / integers /
// booleans and, optionally, a *Session (a minimal established session is built by a helper that is
// injected together with the test through `go test -overlay`; nothing is written to the repository).
// The model's values (slice lengths, the first 32 bytes of every byte-slice parameter, integers) are
// turned into Go literals and the real function is called under recover().

import (
	"context"
	"encoding/json"
	"fmt"
	"go/types"
	"os"
	"os/exec"
	"path/filepath"
	"strconv"
	"strings"
	"time"

	"golang.org/x/tools/go/ssa"
)

var safetyKinds = map[string]bool{"index": true, "slice": true, "make": true, "nil": true, "div": true, "nilmap": true, "panic": true, "typeassert": true}

const replayHelpers = `
func verifReplaySession() *Session {
	conf := DefaultConfig()
	conf.LogOutput = io.Discard
	s := &Session{config: conf, logger: newLogger("replay", io.Discard), streams: map[uint32]*Stream{},
		sendCh: make(chan sendReady, 64), notifyContinueWriteCh: make(chan struct{}, 1), shutdownCh: make(chan struct{}),
		communicationVersion: 3, dispatcher: defaultDispatcher}
	s.queueManager = &queueManager{sendQueue: createQueue(8), recvQueue: createQueue(8)}
	mem := make([]byte, 1<<20)
	bm, err := createBufferManager([]*SizePercentPair{{Size: 4096, Percent: 100}}, "", mem, 0)
	if err != nil {
		panic("replay helper: " + err.Error())
	}
	s.bufferManager = bm
	return s
}
`

func modelInt(m map[string]string, key string) (int64, bool) {
	v, ok := m[key]
	if !ok {
		return 0, false
	}
	v = strings.TrimSpace(v)
	neg := false
	if strings.HasPrefix(v, "(- ") {
		neg = true
		v = strings.TrimSuffix(strings.TrimPrefix(v, "(- "), ")")
	}
	n, err := strconv.ParseInt(v, 10, 64)
	if err != nil {
		u, err2 := strconv.ParseUint(v, 10, 64)
		if err2 != nil {
			return 0, false
		}
		n = int64(u)
	}
	if neg {
		n = -n
	}
	return n, true
}

func tryReplay(e *Engine, o *Obligation, dir string) (bool, string) {
	if !safetyKinds[o.Kind] {
		return false, "replay is implemented for panic-freedom obligations only; this is a " + o.Kind + " obligation (model attached)"
	}
	key := o.Func
	if i := strings.Index(key, "@"); i > 0 {
		key = key[:i]
	}
	fn := e.funcs[key]
	if fn == nil || fn.Parent() != nil {
		return false, "no replay adapter for " + o.Func
	}
	var b strings.Builder
	b.WriteString("package shmipc\n\nimport (\n\t\"fmt\"\n\t\"io\"\n\t\"testing\"\n)\n\nvar _ = io.Discard\n")
	b.WriteString(replayHelpers)
	b.WriteString("\nfunc TestVerifReplay(t *testing.T) {\n\tdefer func() {\n\t\tif r := recover(); r != nil {\n\t\t\tfmt.Printf(\"REPLAY-PANIC: %v\\n\", r)\n\t\t} else {\n\t\t\tfmt.Println(\"REPLAY-NO-PANIC\")\n\t\t}\n\t}()\n")
	var args []string
	for i, p := range fn.Params {
		name := fmt.Sprintf("a%d", i)
		sy := sym("p." + p.Name())
		switch {
		case sortOf(p.Type()) == "Slice":
			isStr := isString(p.Type())
			if st, ok := p.Type().Underlying().(*types.Slice); ok {
				if bits, _, ok := intInfo(st.Elem()); !ok || bits != 8 {
					return false, "no replay adapter: parameter " + p.Name() + " is not a byte slice"
				}
			} else if !isStr {
				return false, "no replay adapter: parameter " + p.Name()
			}
			n, ok := modelInt(o.Model, app("s-len", sy))
			if !ok {
				n = 0
			}
			if n > 1<<20 {
				return false, fmt.Sprintf("model needs a %d-byte input: not executed", n)
			}
			nilSlice := strings.Contains(o.Model[sy], "(mk-slice 0 ")
			var bytes []string
			for k := int64(0); k < n && k < 32; k++ {
				v, _ := modelInt(o.Model, fmt.Sprintf("(select (select M@0 (s-reg %s)) (+ (s-off %s) %d))", sy, sy, k))
				bytes = append(bytes, fmt.Sprint(v&0xff))
			}
			if nilSlice && n == 0 {
				fmt.Fprintf(&b, "\tvar %s []byte\n", name)
			} else {
				fmt.Fprintf(&b, "\t%s := make([]byte, %d)\n\tcopy(%s, []byte{%s})\n", name, n, name, strings.Join(bytes, ", "))
			}
			if isStr {
				args = append(args, "string("+name+")")
			} else {
				args = append(args, types.TypeString(p.Type(), func(*types.Package) string { return "" })+"("+name+")")
			}
		case isBool(p.Type()):
			args = append(args, o.Model[sy])
		default:
			if _, _, ok := intInfo(p.Type()); ok {
				n, _ := modelInt(o.Model, sy)
				args = append(args, fmt.Sprintf("%s(%d)", types.TypeString(p.Type(), func(*types.Package) string { return "" }), n))
				continue
			}
			if pt, ok := p.Type().(*types.Pointer); ok {
				if nt, ok := pt.Elem().(*types.Named); ok && nt.Obj().Name() == "Session" && nt.Obj().Pkg() == e.tp {
					fmt.Fprintf(&b, "\t%s := verifReplaySession()\n", name)
					args = append(args, name)
					continue
				}
			}
			return false, "no replay adapter: parameter " + p.Name() + " of type " + p.Type().String()
		}
	}
	call := ""
	if fn.Signature.Recv() != nil {
		call = fmt.Sprintf("(%s).%s(%s)", args[0], fn.Name(), strings.Join(args[1:], ", "))
	} else {
		call = fmt.Sprintf("%s(%s)", fn.Name(), strings.Join(args, ", "))
	}
	b.WriteString("\t" + call + "\n}\n")
	src := b.String()
	testFile := filepath.Join(dir, "zz_verif_replay_test.go")
	if err := os.WriteFile(testFile, []byte(src), 0o644); err != nil {
		return false, err.Error()
	}
	ov, _ := json.Marshal(map[string]interface{}{"Replace": map[string]string{filepath.Join(e.repo, "zz_verif_replay_test.go"): testFile}})
	ovFile := filepath.Join(dir, "overlay.json")
	os.WriteFile(ovFile, ov, 0o644)
	ctx, cancel := context.WithTimeout(context.Background(), 180*time.Second)
	defer cancel()
	cmd := exec.CommandContext(ctx, "go", "test", "-overlay", ovFile, "-vet=off", "-count=1", "-timeout", "60s", "-run", "^TestVerifReplay$", "-v", ".")
	cmd.Dir = e.repo
	cmd.Env = append(os.Environ(), "GOFLAGS=-mod=mod", "GOPROXY=off", "GOSUMDB=off", "GOTOOLCHAIN=local", "SHMIPC_LOG_LEVEL=5")
	out, _ := cmd.CombinedOutput()
	res := string(out)
	detail := "real function called with the model's inputs:\n" + src + "\noutput:\n" + lastLines(res, 12)
	if strings.Contains(res, "REPLAY-PANIC:") || strings.Contains(res, "panic:") {
		return true, detail
	}
	return false, "the model did not reproduce on the real code (abstraction of heap state in the model)\n" + detail
}

func lastLines(s string, n int) string {
	ls := strings.Split(strings.TrimSpace(s), "\n")
	if len(ls) > n {
		ls = ls[len(ls)-n:]
	}
	return strings.Join(ls, "\n")
}

var _ = ssa.NaiveForm
