package main

import (
	"fmt"
	"strings"
)

// State is a symbolic heap/local state with lazy merging at control-flow joins.
// comps holds only components written since the state was created; lookups fall
// back to the parents (join) or to the base version of the current epoch.
type State struct {
	c       *Ctx
	reach   Term
	comps   map[string]Term
	parents []parentRef
	epoch   string // base-version tag used for components never written
	id      int
}

type parentRef struct {
	cond Term // condition (within the join) selecting this parent
	st   *State
}

var stateSeq int

func newState(c *Ctx, epoch string) *State {
	stateSeq++
	return &State{c: c, reach: "true", comps: map[string]Term{}, epoch: epoch, id: stateSeq}
}

// compSorts is global: component name -> SMT sort
var compSorts = map[string]string{}

func (s *State) clone() *State {
	stateSeq++
	n := &State{c: s.c, reach: s.reach, comps: map[string]Term{}, epoch: s.epoch, id: stateSeq}
	n.parents = []parentRef{{"true", s}}
	return n
}

func baseName(name, epoch string) string { return name + "@" + epoch }

// stable components ignore epochs (never havocked by unknown calls)
var stableComp = func(name string) bool { return false }

func (s *State) get(name string) Term {
	t := s.get0(name)
	if rec := s.c.getRec; rec != nil {
		if prev, ok := rec[name]; ok && prev != t {
			s.c.getRecBad = true // the same component read from two different states (old()): no footprint
		}
		rec[name] = t
	}
	return t
}

func (s *State) get0(name string) Term {
	if t, ok := s.comps[name]; ok {
		return t
	}
	var t Term
	switch len(s.parents) {
	case 0:
		sort, ok := compSorts[name]
		if !ok {
			panic("unknown component sort: " + name)
		}
		ep := s.epoch
		if stableComp(name) || strings.HasPrefix(name, "L.") {
			ep = "0"
		}
		t = s.c.declareNamed(baseName(name, ep), sort)
	case 1:
		t = s.parents[0].st.get0(name)
	default:
		vals := make([]Term, len(s.parents))
		same := true
		for i, p := range s.parents {
			vals[i] = p.st.get0(name)
			if vals[i] != vals[0] {
				same = false
			}
		}
		if same {
			t = vals[0]
		} else {
			body := vals[len(vals)-1]
			for i := len(vals) - 2; i >= 0; i-- {
				body = ite(s.parents[i].cond, vals[i], body)
			}
			t = s.c.define("j."+shortName(name), compSorts[name], body)
		}
	}
	s.comps[name] = t
	return t
}

func shortName(n string) string {
	if len(n) > 40 {
		return n[:40]
	}
	return n
}

func (s *State) set(name string, t Term) { s.comps[name] = t }

// havocAll starts a new epoch: every non-stable, non-local component becomes unknown.
func (s *State) havocAll(tag string) {
	keep := map[string]Term{}
	// collect current values of locals and stable comps that were written
	for name := range allWrittenNames(s, map[*State]bool{}, map[string]bool{}) {
		if strings.HasPrefix(name, "L.") || stableComp(name) || name == "W" {
			keep[name] = s.get(name)
		}
	}
	w := s.get("W")
	s.parents = nil
	s.comps = keep
	s.epoch = tag
	// watermark may only grow
	nw := s.c.fresh("W", "Int")
	s.c.assume(le(w, nw))
	s.comps["W"] = nw
	if s.c.onHavoc != nil {
		s.c.onHavoc(s)
	}
}

func allWrittenNames(s *State, seen map[*State]bool, acc map[string]bool) map[string]bool {
	if seen[s] {
		return acc
	}
	seen[s] = true
	for n := range s.comps {
		acc[n] = true
	}
	for _, p := range s.parents {
		allWrittenNames(p.st, seen, acc)
	}
	return acc
}

// joinStates builds the lazy merge of several incoming edges.
func joinStates(c *Ctx, ins []parentRef, label string) *State {
	if len(ins) == 1 && ins[0].cond == "true" {
		n := ins[0].st.clone()
		return n
	}
	stateSeq++
	n := &State{c: c, comps: map[string]Term{}, id: stateSeq}
	var rs []Term
	eps := map[string]bool{}
	for _, p := range ins {
		rs = append(rs, p.st.reach)
		eps[p.st.epoch] = true
	}
	n.reach = c.define("reach."+label, "Bool", or(rs...))
	// parent selection condition = that parent's reach (edges are mutually exclusive)
	for _, p := range ins {
		n.parents = append(n.parents, parentRef{p.st.reach, p.st})
	}
	if len(eps) == 1 {
		n.epoch = ins[0].st.epoch
	} else {
		n.epoch = fmt.Sprintf("m%d", n.id)
	}
	return n
}
