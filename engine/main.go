package main

import (
	"os/signal"
	"syscall"
	"encoding/json"
	"flag"
	"fmt"
	"os"
	"path/filepath"
	"sort"
	"strconv"
	"strings"
	"sync"
	"time"
)

func environ() []string { return os.Environ() }

type PropConfig struct {
	Functions  []string `json:"functions"`
	Sweep      []string `json:"sweep"` // functions verified for safety only (no contract needed)
	Text       string   `json:"text"`
	NotDecided string   `json:"not_decided"`
	Budget     int      `json:"budget"`
}

var verifiedSomewhere map[string]bool

type KnownFinding struct {
	Property   string `json:"property"`
	Obligation string `json:"obligation"` // function#kind and a stable description substring
	Func       string `json:"func"`
	Kind       string `json:"kind"`
	DescHas    string `json:"desc_has"`
	PosHas     string `json:"pos_has"`
	What       string `json:"what"`
	Status     string `json:"status"` // open | fixed
	Commit     string `json:"commit,omitempty"`
}

func main() {
	repo := flag.String("repo", "/repo", "repository")
	contracts := flag.String("contracts", "", "contract file (default <repo>/contracts_verif.go)")
	propsFile := flag.String("props", "/verif/props.json", "property configuration")
	prop := flag.String("prop", "", "property id")
	tier := flag.String("tier", "quick", "quick|thorough")
	fn := flag.String("func", "", "debug: verify a single function")
	dump := flag.Bool("dump", false, "debug: dump obligations")
	dumpSMT := flag.String("dumpsmt", "", "debug: write the SMT script of the obligation with this id to stdout")
	evidence := flag.String("evidence", "", "evidence output file")
	replays := flag.String("replays", "/verif/replays", "replay directory")
	known := flag.String("known", "/verif/known_findings.json", "known findings file")
	timeout := flag.Int("timeout", 0, "solver timeout seconds (default by tier)")
	list := flag.Bool("list", false, "list functions")
	oracle := flag.String("oracle", "", "run one bounded reference search (queue|pool|list|buf|layout) on the real code of -repo and exit")
	flag.Parse()
	if *oracle != "" {
		rep := oracleRep[*oracle]
		if rep == "" {
			fmt.Fprintln(os.Stderr, "unknown oracle", *oracle)
			os.Exit(2)
		}
		dir, err := os.MkdirTemp(tmpBase(), "govc-")
		if err != nil {
			fmt.Fprintln(os.Stderr, err)
			os.Exit(2)
		}
		bad, detail := oracleReplay(&Engine{repo: *repo}, &Obligation{Func: rep, Model: map[string]string{}}, dir)
		os.RemoveAll(dir)
		if bad {
			fmt.Printf("ORACLE-VIOLATED %s: %s\n", *oracle, detail)
			os.Exit(1)
		}
		if !strings.Contains(detail, "REPLAY-NO-VIOLATION") {
			fmt.Printf("ORACLE-NOT-RUN %s: %s\n", *oracle, detail)
			os.Exit(2)
		}
		fmt.Printf("ORACLE %s: no violation (%s)\n", *oracle, strings.SplitN(detail, "\n", 2)[0])
		return
	}
	if *contracts == "" {
		*contracts = filepath.Join(*repo, "contracts_verif.go")
	}
	t0 := time.Now()
	e, err := loadEngine(*repo, *contracts)
	if err != nil {
		fmt.Fprintln(os.Stderr, "load failed:", err)
		os.Exit(2)
	}
	e.loadSeconds = time.Since(t0).Seconds()
	if *list {
		for _, k := range e.sortedFuncKeys() {
			fmt.Println(k)
		}
		fmt.Println("init-only fields:", sortedKeys(e.initOnly))
		fmt.Println("immutable globals:", sortedKeys(e.immGlobals))
		for g, t := range e.tables {
			fmt.Println("table", g, len(t), e.tableLen[g])
		}
		for g, t := range e.mapTables {
			fmt.Println("map table", g, len(t))
		}
		return
	}
	to := *timeout
	if to == 0 {
		to = 30
		if *tier == "thorough" {
			to = 120
		}
	}
	dir, err := os.MkdirTemp(tmpBase(), "govc-")
	if err != nil {
		fmt.Fprintln(os.Stderr, err)
		os.Exit(2)
	}
	defer os.RemoveAll(dir)
	{
		// a reader that stops early (grep -q in the selftest) or a kill must not leave the scratch directory behind
		sigc := make(chan os.Signal, 1)
		signal.Notify(sigc, syscall.SIGPIPE, syscall.SIGTERM, syscall.SIGINT, syscall.SIGHUP)
		go func() {
			<-sigc
			os.RemoveAll(dir)
			os.Exit(3)
		}()
	}
	if *fn != "" {
		var res *FuncResult
		if strings.HasPrefix(*fn, "arith:") {
			res = e.verifyArith((*fn)[6:])
		} else {
			res = e.verifyFuncFor(*fn, 4000, *prop)
		}
		if res.Error != "" {
			fmt.Println("ERROR:", res.Error)
		}
		if *dumpSMT != "" {
			for _, o := range res.Obls {
				if o.ID == *dumpSMT {
					fmt.Print(res.Ctx.script(o))
				}
			}
			return
		}
		stats := &solveStats{}
		solveAll(res.Ctx, res.Obls, dir, to, 16, stats)
		nat, natOK := 0, 0
		for _, o := range res.Obls {
			if o.Atom {
				nat++
				if o.Status == "unsat" {
					natOK++
				} else if *dump {
					fmt.Printf("fold-miss %s %s | %.150s\n", o.ID, o.Status, o.Desc)
				}
			}
		}
		res.Obls = dropAtoms(res.Obls)
		if strings.Contains(*prop, "@") {
			res.Obls = filterVariant(res.Obls, *prop)
		}
		if nat > 0 {
			fmt.Printf("folded predicate instances: %d tried, %d proved\n", nat, natOK)
		}
		bad := 0
		for _, o := range res.Obls {
			okay := o.Status == "unsat"
			if o.MustFail {
				okay = o.Status != "unsat"
			}
			if !okay {
				bad++
			}
			if okay && !*dump && o.Seconds >= 2 && !o.MustFail {
				fmt.Printf("slow   %-8s %-40s %.2fs %s | %.100s\n", o.Status, o.ID, o.Seconds, o.Solver, o.Desc)
			}
			if *dump || !okay {
				fmt.Printf("%-6s %-8s %-40s %s | %s | %.2fs %s %v\n", map[bool]string{true: "ok", false: "FAIL"}[okay], o.Status, o.ID, o.Pos, o.Desc, o.Seconds, o.Solver, o.Model)
			}
		}
		fmt.Printf("%s: %d obligations, %d not ok, %.1fs solver, notes=%d\n", *fn, len(res.Obls), bad, stats.seconds, len(res.Notes))
		for _, n := range res.Notes {
			fmt.Println("  note:", n)
		}
		fmt.Println("  modular:", res.Modular)
		fmt.Println("  inlined:", res.Inlined)
		fmt.Println("  abstracted:", res.Abstracted)
		fmt.Println("  externs:", res.Externs)
		return
	}
	if *prop == "" {
		fmt.Fprintln(os.Stderr, "need -prop or -func")
		os.Exit(2)
	}
	rc := runProperty(e, *prop, *tier, *propsFile, *evidence, *replays, *known, to, dir, t0)
	os.RemoveAll(dir) // os.Exit does not run deferred calls
	os.Exit(rc)
}

func tmpBase() string {
	if d := os.Getenv("TMPDIR"); d != "" {
		return d
	}
	return "/var/tmp"
}

func seedFromEnv() int {
	n, _ := strconv.Atoi(os.Getenv("VERIF_SEED"))
	return n
}

// bounded reference searches run with each property (engine/oracle.go)
var oraclesOf = map[string][]string{"C04": {"queue"}, "C15": {"pool"}, "C01": {"list"}, "C02": {"list"}, "C06": {"buf"}, "C08": {"buf"}, "C09": {"buf"}, "C03": {"layout", "list"}}
var oracleRep = map[string]string{"queue": "(*queue).put", "pool": "(*streamPool).pop", "list": "(*bufferList).pop", "buf": "(*linkedBuffer).ReadBytes", "layout": "mappingBufferManager"}
var boundedChecks []map[string]string

func lastLine(s string) string {
	s = strings.TrimSpace(s)
	if i := strings.LastIndex(s, "\n"); i >= 0 {
		return s[i+1:]
	}
	return s
}

// closureKeys: functions verified in the current property run only as dependencies (see the dependency closure)
var closureKeys = map[string]bool{}

func runProperty(e *Engine, prop, tier, propsFile, evidence, replays, knownFile string, timeout int, dir string, t0 time.Time) int {
	var cfg map[string]*PropConfig
	data, err := os.ReadFile(propsFile)
	if err != nil {
		fmt.Fprintln(os.Stderr, err)
		return 2
	}
	if err := json.Unmarshal(data, &cfg); err != nil {
		fmt.Fprintln(os.Stderr, "props:", err)
		return 2
	}
	pc := cfg[prop]
	if pc == nil {
		fmt.Fprintln(os.Stderr, "unknown property", prop)
		return 2
	}
	// functions whose contract some check verifies (any property): contracts outside this set are assumed
	verifiedSomewhere = map[string]bool{}
	for _, c := range cfg {
		if c == nil {
			continue
		}
		for _, f := range append(append([]string{}, c.Functions...), c.Sweep...) {
			if i := strings.Index(f, "@"); i > 0 {
				f = f[:i]
			}
			verifiedSomewhere[f] = true
		}
	}
	var known []KnownFinding
	if data, err := os.ReadFile(knownFile); err == nil {
		var kf struct {
			Findings []KnownFinding `json:"findings"`
		}
		if err := json.Unmarshal(data, &kf); err != nil {
			fmt.Fprintln(os.Stderr, "known findings:", err)
			return 2
		}
		known = kf.Findings
	}
	budget := pc.Budget
	if budget == 0 {
		budget = 4000
	}
	stats := &solveStats{}
	var results []*FuncResult
	var all []*Obligation
	undecided := []string{}
	keys := append(append([]string{}, pc.Functions...), pc.Sweep...)
	lemmaSeen := map[string]bool{}
	closureKeys = map[string]bool{}
	for ki := 0; ki < len(keys); ki++ {
		key := keys[ki]
		var res *FuncResult
		if strings.HasPrefix(key, "arith:") {
			res = e.verifyArith(key[6:])
		} else if strings.HasPrefix(key, "writers:") {
			res = e.verifyWriters(key[8:])
		} else {
			fkey, vprop := key, prop
			if i := strings.Index(key, "@"); i > 0 {
				fkey, vprop = key[:i], prop+key[i:]
			}
			res = e.verifyFuncFor(fkey, budget, vprop)
			res.Variant = vprop
			if fkey != key {
				res.Key = key
				for _, o := range res.Obls {
					o.ID = strings.Replace(o.ID, fkey+"#", key+"#", 1)
				}
			}
		}
		for _, l := range res.Lemmas {
			if !lemmaSeen[l] {
				lemmaSeen[l] = true
				if strings.HasPrefix(l, "func:") {
					// step lemma (a lemma function): verify it in this run unless it is listed already
					have := false
					for _, k := range keys {
						if k == l[5:] {
							have = true
						}
					}
					if !have {
						keys = append(keys, l[5:])
					}
					continue
				}
				keys = append(keys, "arith:"+l)
			}
		}
		results = append(results, res)
		if res.Error != "" {
			undecided = append(undecided, key+": "+firstLine(res.Error))
			continue
		}
		if os.Getenv("GOVC_NOCLOSURE") == "" && !strings.Contains(key, "@") {
			// dependency closure: also verify, under this property's clause set, every contract this proof relies on
			// (transitively), so that no clause assumed at a call site in this check is verified only by another check
			for _, g := range res.Modular {
				if e.cf.Funcs[g] == nil {
					continue
				}
				have := false
				for _, k := range keys {
					if k == g {
						have = true
					}
				}
				if !have {
					keys = append(keys, g)
					closureKeys[g] = true
				}
			}
		}
	}
	genSecs := time.Since(t0).Seconds()
	// phase 2: solve the obligations of all functions concurrently
	{
		var wg sync.WaitGroup
		for _, res := range results {
			if res.Error != "" {
				continue
			}
			obls := filterObls(res.Obls, prop)
			if res.Variant != "" && res.Variant != prop {
				obls = filterVariant(res.Obls, res.Variant)
			}
			if closureKeys[res.Key] {
				// a contract this property's proof relies on: only what callers assume of it is claimed here
				var keep []*Obligation
				for _, o := range obls {
					switch o.Kind {
					case "post", "exit", "frame", "inv-entry", "inv-pres", "fold":
						keep = append(keep, o)
					default:
						if o.MustFail || o.Atom {
							keep = append(keep, o)
						}
					}
				}
				obls = keep
				res.Obls = keep
				res.Notes = append(res.Notes, "dependency of this property's proof (its contract is used by a listed function): only its contract clauses (postconditions, frame, loop invariants) are claimed here; its own safety obligations belong to the property that lists it")
			}
			all = append(all, obls...)
			wg.Add(1)
			go func(res *FuncResult, obls []*Obligation) {
				defer wg.Done()
				solveAll(res.Ctx, obls, dir, timeout, 16, stats)
			}(res, obls)
		}
		wg.Wait()
		all = dropAtoms(all)
		for _, res := range results {
			res.Obls = dropAtoms(res.Obls)
		}
	}
	_ = genSecs
	// classify
	var failed, vacuity []*Obligation
	discharged, total, guards, guardsOK := 0, 0, 0, 0
	for _, o := range all {
		if o.MustFail {
			guards++
			if o.Status != "unsat" {
				guardsOK++
			}
			continue
		}
		total++
		if o.Status == "unsat" {
			discharged++
		} else {
			failed = append(failed, o)
		}
	}
	// vacuity: preconditions must be satisfiable; at least one return reachable per function
	for _, r := range results {
		if r.Error != "" {
			continue
		}
		reachable := 0
		rets := 0
		for _, o := range r.Obls {
			if !o.MustFail || o.Status == "" {
				continue
			}
			if strings.HasPrefix(o.Desc, "preconditions") {
				if o.Status == "unsat" {
					vacuity = append(vacuity, o)
				}
			} else {
				rets++
				if o.Status != "unsat" {
					reachable++
				}
			}
		}
		if rets > 0 && reachable == 0 {
			vacuity = append(vacuity, &Obligation{ID: r.Key + "#vacuity#returns", Func: r.Key, Desc: "no return of " + r.Key + " is reachable under its contract"})
		}
		expected := 0
		if ct := e.cf.Funcs[r.Key]; ct != nil {
			expected = ct.UnreachableReturns
		}
		if rets-reachable > expected && (r.Variant == "" || r.Variant == prop) {
			vacuity = append(vacuity, &Obligation{ID: r.Key + "#vacuity#unreachable-returns", Func: r.Key, Desc: fmt.Sprintf("%d returns of %s are unreachable under its contract, at most %d expected (contradictory premises or dead code)", rets-reachable, r.Key, expected)})
		}
	}
	exit := 0
	var knownHit []string
	violations := 0
	os.MkdirAll(filepath.Join(replays, prop), 0o755)
	for _, o := range failed {
		if kf := matchKnown(known, prop, o); kf != nil {
			fmt.Printf("KNOWN-FINDING: property=%s %s [%s]\n", prop, kf.What, o.ID)
			knownHit = append(knownHit, o.ID+": "+kf.What)
			continue
		}
		violations++
		exit = 1
		path := filepath.Join(replays, prop, sanitize(o.ID)+".json")
		rp := map[string]interface{}{"property": prop, "obligation": o.ID, "function": o.Func, "kind": o.Kind, "description": o.Desc, "position": o.Pos,
			"solver_status": o.Status, "solver": o.Solver, "solver_output": o.Raw, "model": o.Model}
		suffix := " no-failing-input-found"
		if o.Status == "sat" && len(o.Model) > 0 {
			if ok, detail := tryReplay(e, o, dir); ok {
				rp["replay"] = detail
				suffix = ""
			} else {
				rp["replay"] = detail
			}
		}
		if suffix != "" {
			// functions with an executable reference: look for a concrete failing input on the real code
			if ok, detail := oracleReplay(e, o, dir); detail != "" {
				rp["oracle_replay"] = detail
				if ok {
					suffix = ""
				}
			}
		}
		b, _ := json.MarshalIndent(rp, "", " ")
		os.WriteFile(path, b, 0o644)
		fmt.Printf("VIOLATION property=%s replay=%s obligation=%s (%s; %s)%s\n", prop, path, o.ID, o.Desc, o.Status, suffix)
	}
	for _, v := range vacuity {
		exit = 1
		violations++
		path := filepath.Join(replays, prop, sanitize(v.ID)+".json")
		b, _ := json.MarshalIndent(map[string]interface{}{"property": prop, "obligation": v.ID, "description": "vacuity guard failed: " + v.Desc}, "", " ")
		os.WriteFile(path, b, 0o644)
		fmt.Printf("VIOLATION property=%s replay=%s obligation=%s (vacuity guard: %s) no-failing-input-found\n", prop, path, v.ID, v.Desc)
	}
	if len(undecided) > 0 {
		for _, u := range undecided {
			fmt.Printf("UNDECIDED property=%s %s\n", prop, u)
		}
		if exit == 0 {
			exit = 2
		}
	}
	// bounded reference searches on the real code (labelled bounded; additional to the proofs, never counted as proved)
	boundedChecks = nil
	for _, o := range oraclesOf[prop] {
		rep := oracleRep[o]
		bad, detail := oracleReplay(e, &Obligation{Func: rep, Model: map[string]string{}}, dir)
		first := strings.SplitN(detail, "\n", 2)[0]
		switch {
		case bad:
			violations++
			exit = 1
			path := filepath.Join(replays, prop, "oracle-"+o+".txt")
			os.WriteFile(path, []byte(detail), 0o644)
			fmt.Printf("VIOLATION property=%s replay=%s obligation=bounded-reference-search:%s (%.300s)\n", prop, path, o, first)
			boundedChecks = append(boundedChecks, map[string]string{"name": o, "result": "violated", "detail": first})
		case strings.Contains(detail, "REPLAY-NO-VIOLATION"):
			fmt.Printf("bounded: reference search %s: no violation (%.200s)\n", o, first)
			boundedChecks = append(boundedChecks, map[string]string{"name": o, "result": "no violation", "bound": first})
		default:
			fmt.Printf("NOTE: bounded reference search %s could not be run: %.200s\n", o, lastLine(detail))
			boundedChecks = append(boundedChecks, map[string]string{"name": o, "result": "not run", "detail": lastLine(detail)})
		}
	}
	wall := time.Since(t0).Seconds()
	if evidence != "" {
		writeEvidence(e, evidence, prop, tier, pc, results, all, failed, knownHit, undecided, stats, discharged, total, guards, guardsOK, violations, wall, timeout)
	}
	fmt.Printf("property=%s tier=%s functions=%d obligations=%d discharged=%d known=%d violations=%d undecided=%d vacuity_guards=%d/%d wall=%.1fs\n",
		prop, tier, len(keys), total, discharged, len(knownHit), violations, len(undecided), guardsOK, guards, wall)
	return exit
}

func firstLine(s string) string {
	if i := strings.Index(s, "\n"); i >= 0 {
		return s[:i]
	}
	return s
}

func sanitize(s string) string {
	r := strings.NewReplacer("(", "", ")", "", "*", "", "/", "_", " ", "_", "#", "-", "$", "_")
	return r.Replace(s)
}

func matchKnown(known []KnownFinding, prop string, o *Obligation) *KnownFinding {
	for i := range known {
		k := &known[i]
		if k.Status == "fixed" {
			continue
		}
		if k.Property != prop || k.Func != o.Func || k.Kind != o.Kind {
			continue
		}
		if k.DescHas != "" && !strings.Contains(o.Desc, k.DescHas) {
			continue
		}
		if k.PosHas != "" && !strings.Contains(o.Pos, k.PosHas) {
			continue
		}
		return k
	}
	return nil
}

func writeEvidence(e *Engine, path, prop, tier string, pc *PropConfig, results []*FuncResult, all, failed []*Obligation, knownHit, undecided []string,
	stats *solveStats, discharged, total, guards, guardsOK, violations int, wall float64, timeout int) {
	type fnInfo struct {
		Function    string   `json:"function"`
		Contract    bool     `json:"has_contract"`
		Obligations int      `json:"obligations"`
		Discharged  int      `json:"discharged"`
		Loops       int      `json:"loops"`
		LoopsInv    int      `json:"loops_with_invariant"`
		Modular     []string `json:"callees_used_by_contract,omitempty"`
		Inlined     []string `json:"callees_inlined,omitempty"`
		Abstracted  []string `json:"callees_abstracted,omitempty"`
		Notes       []string `json:"abstractions,omitempty"`
		Error       string   `json:"error,omitempty"`
	}
	var fns []fnInfo
	assum := map[string]bool{}
	for _, r := range results {
		fi := fnInfo{Function: r.Key, Contract: r.Contract, Loops: r.LoopsTotal, LoopsInv: r.LoopsWithInv, Modular: r.Modular, Inlined: r.Inlined, Abstracted: r.Abstracted, Notes: r.Notes, Error: firstLine(r.Error)}
		for _, o := range filterObls(r.Obls, prop) {
			if o.MustFail {
				continue
			}
			fi.Obligations++
			if o.Status == "unsat" {
				fi.Discharged++
			}
		}
		fns = append(fns, fi)
		for _, x := range r.Externs {
			assum["external: "+x] = true
		}
		for _, x := range r.Modular {
			if !verifiedSomewhere[x] {
				if ct := e.cf.Funcs[x]; ct != nil && ct.Trusted == "" {
					if closureKeys[x] {
						assum["contract of "+x+" (used by "+r.Key+"): its clauses are verified in this run as a dependency; the safety obligations of its body (index, nil, preconditions of its own callees) are verified by no check"] = true
					} else {
						assum["assumed contract (used by "+r.Key+", verified by no check): "+x] = true
					}
				}
			}
		}
		for _, x := range r.Abstracted {
			assum["abstracted callee (effects havocked by inferred write set): "+x] = true
		}
	}
	kinds := map[string]int{}
	var samples []map[string]interface{}
	var slowest float64
	for _, o := range all {
		if o.MustFail {
			continue
		}
		kinds[o.Kind]++
		if o.Seconds > slowest {
			slowest = o.Seconds
		}
	}
	sorted := append([]*Obligation{}, all...)
	sort.SliceStable(sorted, func(i, j int) bool { return sorted[i].Seconds > sorted[j].Seconds })
	slow := []string{}
	for _, o := range sorted {
		if o.MustFail || o.Seconds < 5 {
			continue
		}
		slow = append(slow, fmt.Sprintf("%s %.1fs %s %s", o.ID, o.Seconds, o.Solver, o.Status))
	}
	for i, o := range sorted {
		if i >= 6 {
			break
		}
		samples = append(samples, map[string]interface{}{"id": o.ID, "kind": o.Kind, "desc": o.Desc, "pos": o.Pos, "status": o.Status, "solver": o.Solver, "seconds": round2(o.Seconds), "smt_bytes": o.Bytes, "must_fail_guard": o.MustFail})
	}
	var failedIDs []string
	for _, o := range failed {
		failedIDs = append(failedIDs, o.ID+" ["+o.Status+"] "+o.Desc)
	}
	standing := []string{
		"go/packages + go/ssa (x/tools v0.29.0, NaiveForm) build a faithful SSA of /repo's working tree; the Go compiler implements the language",
		"the VC generator govc (mitigated by vacuity guards, the must-fail corpus and replay)",
		"an unsat answer of z3 5.1.0 / z3 4.8.12 / cvc5 1.0.3 is believed",
		"sync/atomic operations are indivisible and sequentially consistent; sequential contracts say nothing about interleavings",
		"allocation never fails; termination is not proved",
		"machine integers are exact (Int with explicit wrap-around); nothing is treated as mathematical",
		"pointer-typed struct fields into shared memory point at valid memory (type invariant of the mapping)",
		"peer process runs the same code (no hostile writes) except where a function validates what it reads",
	}
	for a := range assum {
		standing = append(standing, a)
	}
	if len(e.cf.Stable) > 0 {
		standing = append(standing, "declared stable under unknown code (callbacks, interface methods, abstracted callees): "+strings.Join(e.cf.Stable, ", "))
	}
	if len(e.cf.NonNil) > 0 {
		standing = append(standing, "object invariants 'never nil' (assumed at loads; proved at every store and constructor exit under the properties whose functions write them): "+strings.Join(sortedKeys(e.cf.NonNil), ", "))
	}
	var open []string
	for _, r := range results {
		k := r.Key
		if i := strings.Index(k, "@"); i > 0 {
			k = k[:i]
		}
		if ct := e.cf.Funcs[k]; ct != nil {
			for _, cl := range ct.Clauses {
				for _, p := range cl.Props {
					if p == "OPEN" {
						open = append(open, fmt.Sprintf("%s: %s %s", k, cl.Kind, cl.Text))
					}
				}
			}
		}
	}
	sort.Strings(standing[8:])
	level := "proof"
	cov := map[string]interface{}{
		"obligations":                        total - len(knownHit),
		"discharged":                         discharged,
		"known_finding_obligations_excluded": len(knownHit),
		"checker_cmd":                        fmt.Sprintf("/verif/check %s --tier %s  (govc: go/ssa VC generation from /repo working tree; each obligation raced on z3-new, cvc5, z3; timeout %ds)", prop, tier, timeout),
		"trusted_base":                       []string{"golang.org/x/tools v0.29.0 go/ssa", "govc VC generator (/verif/engine)", "z3 5.1.0", "z3 4.8.12", "cvc5 1.0.3", "contract file /repo/contracts_verif.go (postconditions taken from the property statement)"},
		"functions_under_contract":           fns,
		"per_backend":                        stats.perSolver,
		"solver_seconds":                     round2(stats.seconds),
		"slowest_obligation_s":               round2(slowest),
		"slow_obligations_over_5s":           slow,
		"obligation_kinds":                   kinds,
		"samples":                            samples,
		"vacuity_guards":                     map[string]int{"total": guards, "behaved": guardsOK},
		"known_findings":                     knownHit,
		"undischarged":                       failedIDs,
		"undecided":                          undecided,
		"bounded_functions":                  []string{},
		"bounded_reference_searches":         boundedChecks,
		"open_obligations_not_claimed":       open,
		"explanation":                        pc.Text,
		"not_decided":                        pc.NotDecided,
		"package_load_seconds":               round2(e.loadSeconds),
	}
	ev := map[string]interface{}{
		"property_id": prop, "tier": tier, "seed": seedFromEnv(), "level": level, "coverage": cov,
		"assumptions": standing, "wall_s": round2(wall), "violations": violations,
	}
	os.MkdirAll(filepath.Dir(path), 0o755)
	b, _ := json.MarshalIndent(ev, "", " ")
	os.WriteFile(path, b, 0o644)
}

func dropAtoms(obls []*Obligation) []*Obligation {
	var out []*Obligation
	for _, o := range obls {
		if !o.Atom {
			out = append(out, o)
		}
	}
	return out
}

func round2(f float64) float64 { return float64(int(f*100+0.5)) / 100 }
