package main

import (
	"fmt"
	"go/types"
	"math/big"
	"strings"
)

func pow2(n int) string {
	return new(big.Int).Lsh(big.NewInt(1), uint(n)).String()
}

func intInfo(t types.Type) (bits int, signed bool, ok bool) {
	b, isB := t.Underlying().(*types.Basic)
	if !isB {
		return 0, false, false
	}
	switch b.Kind() {
	case types.Int8:
		return 8, true, true
	case types.Int16:
		return 16, true, true
	case types.Int32:
		return 32, true, true
	case types.Int64, types.Int, types.UntypedInt, types.UntypedRune:
		return 64, true, true
	case types.Uint8:
		return 8, false, true
	case types.Uint16:
		return 16, false, true
	case types.Uint32:
		return 32, false, true
	case types.Uint64, types.Uint, types.Uintptr:
		return 64, false, true
	}
	return 0, false, false
}

func isString(t types.Type) bool {
	b, ok := t.Underlying().(*types.Basic)
	return ok && (b.Kind() == types.String || b.Kind() == types.UntypedString)
}
func isBool(t types.Type) bool {
	b, ok := t.Underlying().(*types.Basic)
	return ok && (b.Kind() == types.Bool || b.Kind() == types.UntypedBool)
}
func isUnsafePointer(t types.Type) bool {
	b, ok := t.Underlying().(*types.Basic)
	return ok && b.Kind() == types.UnsafePointer
}
func isFloat(t types.Type) bool {
	b, ok := t.Underlying().(*types.Basic)
	return ok && b.Info()&types.IsFloat != 0
}

// sortOf maps a Go type to an SMT sort.
func sortOf(t types.Type) string {
	switch u := t.Underlying().(type) {
	case *types.Basic:
		switch {
		case isBool(t):
			return "Bool"
		case isString(t):
			return "Slice"
		case isUnsafePointer(t):
			return "Ptr"
		}
		return "Int"
	case *types.Pointer:
		switch u.Elem().Underlying().(type) {
		case *types.Struct, *types.Array:
			return "Int"
		}
		return "Ptr"
	case *types.Slice:
		return "Slice"
	}
	return "Int" // struct value (snapshot ref), array value (region), interface, chan, map, func, tuple
}

func zeroOf(t types.Type) Term {
	switch sortOf(t) {
	case "Bool":
		return "false"
	case "Slice":
		return "nilslice"
	case "Ptr":
		return "nilptr"
	}
	return "0"
}

func constArray(elemSort string, v Term) Term {
	return fmt.Sprintf("((as const (Array Int %s)) %s)", elemSort, v)
}

// typeName gives a stable name for a struct type used in component names.
func typeName(t types.Type, home *types.Package) string {
	switch tt := t.(type) {
	case *types.Named:
		o := tt.Obj()
		if o.Pkg() == nil || o.Pkg() == home {
			return o.Name()
		}
		return o.Pkg().Name() + "." + o.Name()
	case *types.Pointer:
		return typeName(tt.Elem(), home)
	}
	s := t.String()
	s = strings.NewReplacer(" ", "", "{", "<", "}", ">", ";", ",", "|", "!").Replace(s)
	if len(s) > 40 {
		s = s[:40]
	}
	return "anon." + s
}

// rangeFact returns the machine-range fact of an integer-typed term.
func rangeFact(t types.Type, v Term) Term {
	bits, signed, ok := intInfo(t)
	if !ok {
		return "true"
	}
	if signed {
		return fmt.Sprintf("(and (<= (- %s) %s) (< %s %s))", pow2(bits-1), v, v, pow2(bits-1))
	}
	return fmt.Sprintf("(and (<= 0 %s) (< %s %s))", v, v, pow2(bits))
}

func sliceWF(v Term) Term {
	return fmt.Sprintf("(and (<= (- 1000000) (s-reg %s)) (<= 0 (s-off %s)) (<= 0 (s-len %s)) (<= (s-len %s) (s-cap %s)) (< (+ (s-off %s) (s-cap %s)) 9223372036854775808) (=> (= (s-reg %s) 0) (= %s nilslice)))", v, v, v, v, v, v, v, v, v)
}

// elemSize in bytes for make() bounds
func elemSize(t types.Type) int64 {
	sz := types.SizesFor("gc", "amd64").Sizeof(t)
	if sz <= 0 {
		return 1
	}
	return sz
}

func wrapInt(t types.Type, v Term) Term {
	bits, signed, ok := intInfo(t)
	if !ok {
		return v
	}
	if signed {
		return app("wraps", v, pow2(bits-1))
	}
	return app("wrapu", v, pow2(bits))
}

// convInt converts an integer term between machine types.
func convInt(from, to types.Type, v Term) Term {
	fb, fs, ok1 := intInfo(from)
	tb, ts, ok2 := intInfo(to)
	if !ok1 || !ok2 {
		return v
	}
	// identity when the source range is included in the target range
	if fs == ts && fb <= tb {
		return v
	}
	if !fs && ts && fb < tb {
		return v
	}
	return wrapInt(to, v)
}
