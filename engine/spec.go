package main

// Contract file parsing and the specification expression language.

import (
	"bufio"
	"fmt"
	"os"
	"regexp"
	"strconv"
	"strings"
)

type Spec struct {
	Op   string // num ident sel index slice call unary bin forall exists old str
	Name string
	Args []*Spec
	Trig *Spec
	// From: set on the conjuncts produced by splitConj from the expansion of a predicate call: the (guarded /
	// quantified) call they came from. Proving that call "folded" (as an atom) subsumes all of them.
	From *Spec
}

func (s *Spec) String() string {
	switch s.Op {
	case "num", "ident", "str":
		return s.Name
	case "sel":
		return s.Args[0].String() + "." + s.Name
	case "index":
		return s.Args[0].String() + "[" + s.Args[1].String() + "]"
	case "slice":
		return s.Args[0].String() + "[" + s.Args[1].String() + ":" + s.Args[2].String() + "]"
	case "call":
		var as []string
		for _, a := range s.Args {
			as = append(as, a.String())
		}
		return s.Name + "(" + strings.Join(as, ", ") + ")"
	case "unary":
		return s.Name + s.Args[0].String()
	case "bin":
		return "(" + s.Args[0].String() + " " + s.Name + " " + s.Args[1].String() + ")"
	case "forall", "exists":
		return fmt.Sprintf("%s %s in [%s,%s): %s", s.Op, s.Name, s.Args[0], s.Args[1], s.Args[2])
	}
	return "?"
}

type Clause struct {
	Kind  string // requires ensures modifies invariant decreases assert ghost
	Props []string
	Loop  int
	Point string
	Text  string
	Expr  *Spec
	Locs  []*Spec
	Line  int
	// bystep clauses: the step (a store into Locs[0], or the N-th call of Callee) is an instance of the step
	// lemma Lemma whenever Expr holds before it
	Callee string
	N      int
	Lemma  string
}

// LoopGhost: `loop N ghost lhs := e`
type LoopGhost struct {
	Loop int
	AC   AtCall
}

type Contract struct {
	Key                string
	Clauses            []*Clause
	Trusted            string
	Nilable            bool     // receiver may be nil
	Opaque             []string // interface methods treated as unknown code in this function (no devirtualisation)
	GhostVars          []GhostVar
	LoopGhosts         []LoopGhost // ghost updates executed at the start of every iteration of a loop
	AtCalls            []AtCall
	UnreachableReturns int // returns that are expected to be unreachable under the contract
	Line               int
	Lemma              bool
}

type GhostVar struct {
	Name, Sort string
	Init       *Spec
}

// AtCall: ghost update performed right after the n-th call (source order) of a callee whose name ends with Callee
type AtCall struct {
	AtReturn  bool  // executed right before every return of the function
	LHS       *Spec // ghost variable, ghost field x.f or ghost array element x.f[i]
	Optional  bool  // the anchor may be absent (no such call): the update is then skipped
	Assume    bool  // assumed (unchecked, reported) instead of proved
	CheckOnly bool  // proved where it stands but not assumed afterwards
	Text      string
	Hint      bool // proved (then assumed) right before the call instead of a ghost update after it
	Props     []string
	Callee    string
	N         int
	Var       string
	Expr      *Spec
	Line      int
}

type PureDef struct {
	Name   string
	Params []PureParam
	Ret    string
	Body   *Spec
	Line   int
}
type PureParam struct{ Name, Type string }

type ContractFile struct {
	Funcs       map[string]*Contract
	Ariths      map[string]*PureDef
	Pures       map[string]*PureDef
	Ghost       []GhostField
	Immutable   []string
	Stable      []string
	Writers     map[string][]string // component -> the only functions allowed to write it
	NonNilElems map[string]bool     // map-typed fields whose values are never nil
	NonNil      map[string]bool     // component names F.T.f whose value is never nil once the object is constructed
	Lines       int
}
type GhostField struct{ Type, Field, Sort string }

var reClause = regexp.MustCompile(`^(requires|ensures|modifies|decreases|trusted|nilable|hint|assume|preserves|unreachable-returns|opaque|exit|apply|cut|rely|guarantee|interference|inline)(\[[A-Za-z0-9,@]+\])?\s*(.*)$`)
var reLoop = regexp.MustCompile(`^loop\s+(\d+)\s+(invariant|decreases|modifies|hint|apply|assume|ghost)(\[[A-Za-z0-9,@]+\])?\s+(.*)$`)
var reGhostVar = regexp.MustCompile(`^ghost\s+var\s+([A-Za-z_][A-Za-z0-9_]*)\s+(int|bool|\[int\]int|\[int\]bool)\s*=\s*(.*)$`)
var reAtCall = regexp.MustCompile(`^at\s+call\??\s+([A-Za-z0-9_./()*]+)#(\d+)\s+ghost(\[[A-Za-z0-9,@]+\])?\s+([A-Za-z_][A-Za-z0-9_.\[\]+\-* ()]*?)\s*:=\s*(.*)$`)
var reByStepStore = regexp.MustCompile(`^bystep(\[[A-Za-z0-9,@]+\])?\s+store\s+in\s+(.*?)\s+when\s+(.*?)\s+by\s+([A-Za-z0-9_]+)$`)
var reByStepCall = regexp.MustCompile(`^bystep(\[[A-Za-z0-9,@]+\])?\s+call\s+([A-Za-z0-9_./()*]+)#(\d+)\s+when\s+(.*?)\s+by\s+([A-Za-z0-9_]+)$`)
var reAtReturn = regexp.MustCompile(`^at\s+return\s+ghost(\[[A-Za-z0-9,@]+\])?\s+([A-Za-z_][A-Za-z0-9_.\[\]+\-* ()]*?)\s*:=\s*(.*)$`)
var reAtCallHint = regexp.MustCompile(`^at\s+call\??\s+([A-Za-z0-9_./()*]+)#(\d+)\s+(?:hint|assume|check)(\[[A-Za-z0-9,@]+\])?\s+(.*)$`)
var rePure = regexp.MustCompile(`^(?:pure|arith)\s+([A-Za-z_][A-Za-z0-9_]*)\s*\(([^)]*)\)\s*:\s*([A-Za-z0-9_\[\]\*\.]+)\s*=\s*(.*)$`)
var reGhost = regexp.MustCompile(`^ghost\s+field\s+([A-Za-z_][A-Za-z0-9_]*)\.([A-Za-z_][A-Za-z0-9_]*)\s*:\s*(.*)$`)

func parseContractFile(path string) (*ContractFile, error) {
	f, err := os.Open(path)
	if err != nil {
		return nil, err
	}
	defer f.Close()
	cf := &ContractFile{Funcs: map[string]*Contract{}, Pures: map[string]*PureDef{}, Ariths: map[string]*PureDef{}, NonNil: map[string]bool{}, NonNilElems: map[string]bool{}, Writers: map[string][]string{}}
	sc := bufio.NewScanner(f)
	sc.Buffer(make([]byte, 1<<20), 1<<20)
	var logical []struct {
		text string
		line int
	}
	ln := 0
	for sc.Scan() {
		ln++
		line := strings.TrimSpace(sc.Text())
		if !strings.HasPrefix(line, "//@") {
			continue
		}
		body := strings.TrimSpace(line[3:])
		if i := strings.Index(body, " //"); i >= 0 { // trailing comment
			body = strings.TrimSpace(body[:i])
		}
		if body == "" {
			continue
		}
		if strings.HasPrefix(body, "|") {
			if len(logical) == 0 {
				return nil, fmt.Errorf("%s:%d: continuation without clause", path, ln)
			}
			logical[len(logical)-1].text += " " + strings.TrimSpace(body[1:])
			continue
		}
		logical = append(logical, struct {
			text string
			line int
		}{body, ln})
	}
	cf.Lines = ln
	var cur *Contract
	for _, l := range logical {
		t := l.text
		fail := func(err error) error { return fmt.Errorf("%s:%d: %v (in %q)", path, l.line, err, t) }
		switch {
		case strings.HasPrefix(t, "func ") || strings.HasPrefix(t, "lemma "):
			key := strings.TrimSpace(t[strings.Index(t, " ")+1:])
			cur = &Contract{Key: key, Line: l.line, Lemma: strings.HasPrefix(t, "lemma ")}
			if _, dup := cf.Funcs[key]; dup {
				return nil, fail(fmt.Errorf("duplicate contract for %s", key))
			}
			cf.Funcs[key] = cur
		case strings.HasPrefix(t, "pure ") || strings.HasPrefix(t, "arith "):
			m := rePure.FindStringSubmatch(t)
			if m == nil {
				return nil, fail(fmt.Errorf("bad pure definition"))
			}
			pd := &PureDef{Name: m[1], Ret: m[3], Line: l.line}
			for _, p := range strings.Split(m[2], ",") {
				p = strings.TrimSpace(p)
				if p == "" {
					continue
				}
				fs := strings.Fields(p)
				if len(fs) != 2 {
					return nil, fail(fmt.Errorf("bad parameter %q", p))
				}
				pd.Params = append(pd.Params, PureParam{fs[0], fs[1]})
			}
			e, err := parseSpec(m[4])
			if err != nil {
				return nil, fail(err)
			}
			pd.Body = e
			if strings.HasPrefix(t, "arith ") {
				cf.Ariths[pd.Name] = pd
			} else {
				cf.Pures[pd.Name] = pd
			}
			cur = nil
		case strings.HasPrefix(t, "ghost field"):
			m := reGhost.FindStringSubmatch(t)
			if m == nil {
				return nil, fail(fmt.Errorf("bad ghost field"))
			}
			cf.Ghost = append(cf.Ghost, GhostField{m[1], m[2], strings.TrimSpace(m[3])})
			cur = nil
		case strings.HasPrefix(t, "writers "):
			// writers Type.field: f1, f2, ...
			rest := t[len("writers "):]
			i := strings.Index(rest, ":")
			if i < 0 {
				return nil, fail(fmt.Errorf("writers Type.field: functions"))
			}
			comp := "F." + strings.TrimSpace(rest[:i])
			for _, f := range strings.Split(rest[i+1:], ",") {
				if f = strings.TrimSpace(f); f != "" {
					cf.Writers[comp] = append(cf.Writers[comp], f)
				}
			}
			cur = nil
		case strings.HasPrefix(t, "nonnil-elems "):
			for _, f := range strings.Split(t[len("nonnil-elems "):], ",") {
				if f = strings.TrimSpace(f); f != "" {
					cf.NonNilElems["F."+f] = true
				}
			}
			cur = nil
		case strings.HasPrefix(t, "nonnil "):
			for _, f := range strings.Split(t[len("nonnil "):], ",") {
				if f = strings.TrimSpace(f); f != "" {
					cf.NonNil["F."+f] = true
				}
			}
			cur = nil
		case strings.HasPrefix(t, "stable "):
			for _, f := range strings.Split(t[len("stable "):], ",") {
				if f = strings.TrimSpace(f); f != "" {
					cf.Stable = append(cf.Stable, f)
				}
			}
			cur = nil
		case strings.HasPrefix(t, "immutable "):
			cf.Immutable = append(cf.Immutable, strings.TrimSpace(t[len("immutable "):]))
			cur = nil
		default:
			if cur == nil {
				return nil, fail(fmt.Errorf("clause outside func"))
			}
			if m := reGhostVar.FindStringSubmatch(t); m != nil {
				e, err := parseSpec(m[3])
				if err != nil {
					return nil, fail(err)
				}
				cur.GhostVars = append(cur.GhostVars, GhostVar{m[1], ghostSortName(m[2]), e})
				continue
			}
			if m := reByStepStore.FindStringSubmatch(t); m != nil {
				locs, err := parseSpecList(m[2])
				if err != nil {
					return nil, fail(err)
				}
				e, err := parseSpec(m[3])
				if err != nil {
					return nil, fail(err)
				}
				cur.Clauses = append(cur.Clauses, &Clause{Kind: "bystep", Loop: -1, Props: parseProps(m[1]), Locs: locs, Expr: e, Text: t, Lemma: m[4], Line: l.line})
				continue
			}
			if m := reByStepCall.FindStringSubmatch(t); m != nil {
				n, _ := strconv.Atoi(m[3])
				e, err := parseSpec(m[4])
				if err != nil {
					return nil, fail(err)
				}
				cur.Clauses = append(cur.Clauses, &Clause{Kind: "bystep", Loop: -1, Props: parseProps(m[1]), Expr: e, Text: t, Lemma: m[5], Callee: m[2], N: n, Line: l.line})
				continue
			}
			if m := reAtCallHint.FindStringSubmatch(t); m != nil {
				n, _ := strconv.Atoi(m[2])
				e, err := parseSpec(m[4])
				if err != nil {
					return nil, fail(err)
				}
				cur.AtCalls = append(cur.AtCalls, AtCall{Callee: m[1], N: n, Expr: e, Line: l.line, Hint: true, Optional: strings.HasPrefix(t, "at call?"), Props: parseProps(m[3]), Assume: strings.Contains(t[:strings.Index(t, "#")+12], " assume"), CheckOnly: strings.Contains(t[:strings.Index(t, "#")+12], " check"), Text: m[4]})
				continue
			}
			if m := reAtCall.FindStringSubmatch(t); m != nil {
				n, _ := strconv.Atoi(m[2])
				e, err := parseSpec(m[5])
				if err != nil {
					return nil, fail(err)
				}
				lhs, err := parseSpec(m[4])
				if err != nil {
					return nil, fail(err)
				}
				cur.AtCalls = append(cur.AtCalls, AtCall{Callee: m[1], N: n, Var: m[4], LHS: lhs, Expr: e, Line: l.line, Optional: strings.HasPrefix(t, "at call?"), Props: parseProps(m[3])})
				continue
			}
			if m := reAtReturn.FindStringSubmatch(t); m != nil {
				e, err := parseSpec(m[3])
				if err != nil {
					return nil, fail(err)
				}
				lhs, err := parseSpec(m[2])
				if err != nil {
					return nil, fail(err)
				}
				cur.AtCalls = append(cur.AtCalls, AtCall{AtReturn: true, Var: m[2], LHS: lhs, Expr: e, Line: l.line, Props: parseProps(m[1])})
				continue
			}
			if m := reLoop.FindStringSubmatch(t); m != nil {
				n, _ := strconv.Atoi(m[1])
				cl := &Clause{Kind: m[2], Loop: n, Props: parseProps(m[3]), Text: m[4], Line: l.line}
				if cl.Kind == "ghost" {
					parts := strings.SplitN(m[4], ":=", 2)
					if len(parts) != 2 {
						return nil, fail(fmt.Errorf("loop ghost: lhs := e expected"))
					}
					lhs, err := parseSpec(strings.TrimSpace(parts[0]))
					if err != nil {
						return nil, fail(err)
					}
					e, err := parseSpec(strings.TrimSpace(parts[1]))
					if err != nil {
						return nil, fail(err)
					}
					cur.LoopGhosts = append(cur.LoopGhosts, LoopGhost{Loop: n, AC: AtCall{Var: strings.TrimSpace(parts[0]), LHS: lhs, Expr: e, Line: l.line, Props: parseProps(m[3])}})
					continue
				}
				if cl.Kind == "modifies" {
					var locs []*Spec
					if strings.TrimSpace(m[4]) != "nothing" {
						var err error
						locs, err = parseSpecList(m[4])
						if err != nil {
							return nil, fail(err)
						}
					}
					cl.Kind = "loopmodifies"
					cl.Locs = locs
				} else {
					e, err := parseSpec(m[4])
					if err != nil {
						return nil, fail(err)
					}
					cl.Expr = e
				}
				cur.Clauses = append(cur.Clauses, cl)
				continue
			}
			m := reClause.FindStringSubmatch(t)
			if m == nil {
				return nil, fail(fmt.Errorf("unknown clause"))
			}
			cl := &Clause{Kind: m[1], Props: parseProps(m[2]), Text: m[3], Line: l.line, Loop: -1}
			switch cl.Kind {
			case "trusted":
				cur.Trusted = m[3]
				if cur.Trusted == "" {
					cur.Trusted = "trusted"
				}
				continue
			case "nilable":
				cur.Nilable = true
				continue
			case "opaque":
				for _, f := range strings.Split(m[3], ",") {
					if f = strings.TrimSpace(f); f != "" {
						cur.Opaque = append(cur.Opaque, f)
					}
				}
				continue
			case "unreachable-returns":
				n, err := strconv.Atoi(strings.Fields(m[3] + " x")[0])
				if err != nil {
					return nil, fail(err)
				}
				cur.UnreachableReturns = n
				continue
			case "modifies", "interference":
				if strings.TrimSpace(m[3]) != "" && strings.TrimSpace(m[3]) != "nothing" {
					locs, err := parseSpecList(m[3])
					if err != nil {
						return nil, fail(err)
					}
					cl.Locs = locs
				}
			case "inline":
				// callee names (kept in Text)
			default:
				e, err := parseSpec(m[3])
				if err != nil {
					return nil, fail(err)
				}
				cl.Expr = e
			}
			cur.Clauses = append(cur.Clauses, cl)
		}
	}
	return cf, nil
}

func parseProps(s string) []string {
	s = strings.Trim(s, "[]")
	if s == "" {
		return nil
	}
	return strings.Split(s, ",")
}

// ---- tokenizer / parser ----

type tok struct {
	k string // num ident op str eof
	v string
}

func lexSpec(s string) ([]tok, error) {
	var ts []tok
	i := 0
	for i < len(s) {
		c := s[i]
		switch {
		case c == ' ' || c == '\t':
			i++
		case c >= '0' && c <= '9':
			j := i
			for j < len(s) && (s[j] >= '0' && s[j] <= '9' || s[j] == 'x' || s[j] >= 'a' && s[j] <= 'f' || s[j] >= 'A' && s[j] <= 'F' || s[j] == '_') {
				j++
			}
			ts = append(ts, tok{"num", s[i:j]})
			i = j
		case c == '_' || c >= 'a' && c <= 'z' || c >= 'A' && c <= 'Z' || c == '$':
			j := i
			for j < len(s) && (s[j] == '_' || s[j] == '$' || s[j] >= 'a' && s[j] <= 'z' || s[j] >= 'A' && s[j] <= 'Z' || s[j] >= '0' && s[j] <= '9') {
				j++
			}
			ts = append(ts, tok{"ident", s[i:j]})
			i = j
		case c == '"':
			j := i + 1
			for j < len(s) && s[j] != '"' {
				j++
			}
			if j >= len(s) {
				return nil, fmt.Errorf("unterminated string")
			}
			ts = append(ts, tok{"str", s[i+1 : j]})
			i = j + 1
		default:
			ops := []string{"<==>", "==>", "==", "!=", "<=", ">=", "&&", "||", "<<", ">>", "+", "-", "*", "/", "%", "<", ">", "!", "(", ")", "[", "]", ",", ":", ".", "&"}
			found := false
			for _, op := range ops {
				if strings.HasPrefix(s[i:], op) {
					ts = append(ts, tok{"op", op})
					i += len(op)
					found = true
					break
				}
			}
			if !found {
				return nil, fmt.Errorf("bad character %q at %d", c, i)
			}
		}
	}
	ts = append(ts, tok{"eof", ""})
	return ts, nil
}

type sparser struct {
	ts []tok
	p  int
}

func (p *sparser) peek() tok { return p.ts[p.p] }
func (p *sparser) next() tok { t := p.ts[p.p]; p.p++; return t }
func (p *sparser) isOp(v string) bool {
	t := p.peek()
	return t.k == "op" && t.v == v
}
func (p *sparser) expect(v string) error {
	if !p.isOp(v) {
		return fmt.Errorf("expected %q, got %q", v, p.peek().v)
	}
	p.p++
	return nil
}

func parseSpec(s string) (*Spec, error) {
	ts, err := lexSpec(s)
	if err != nil {
		return nil, err
	}
	p := &sparser{ts: ts}
	e, err := p.expr(0)
	if err != nil {
		return nil, err
	}
	if p.peek().k != "eof" {
		return nil, fmt.Errorf("trailing input at %q", p.peek().v)
	}
	return e, nil
}

func parseSpecList(s string) ([]*Spec, error) {
	ts, err := lexSpec(s)
	if err != nil {
		return nil, err
	}
	p := &sparser{ts: ts}
	var out []*Spec
	for {
		e, err := p.expr(0)
		if err != nil {
			return nil, err
		}
		out = append(out, e)
		if p.isOp(",") {
			p.p++
			continue
		}
		break
	}
	if p.peek().k != "eof" {
		return nil, fmt.Errorf("trailing input at %q", p.peek().v)
	}
	return out, nil
}

var binPrec = map[string]int{
	"<==>": 1, "==>": 2, "||": 3, "&&": 4,
	"==": 5, "!=": 5, "<": 5, "<=": 5, ">": 5, ">=": 5,
	"+": 6, "-": 6, "*": 7, "/": 7, "%": 7, "<<": 7, ">>": 7, "&": 7,
}

func (p *sparser) expr(minPrec int) (*Spec, error) {
	lhs, err := p.unary()
	if err != nil {
		return nil, err
	}
	for {
		t := p.peek()
		if t.k != "op" {
			break
		}
		pr, ok := binPrec[t.v]
		if !ok || pr < minPrec {
			break
		}
		p.p++
		nextMin := pr + 1
		if t.v == "==>" { // right associative
			nextMin = pr
		}
		rhs, err := p.expr(nextMin)
		if err != nil {
			return nil, err
		}
		lhs = &Spec{Op: "bin", Name: t.v, Args: []*Spec{lhs, rhs}}
	}
	return lhs, nil
}

func (p *sparser) unary() (*Spec, error) {
	t := p.peek()
	if t.k == "op" && (t.v == "!" || t.v == "-" || t.v == "*") {
		p.p++
		x, err := p.unary()
		if err != nil {
			return nil, err
		}
		return &Spec{Op: "unary", Name: t.v, Args: []*Spec{x}}, nil
	}
	if t.k == "ident" && (t.v == "forall" || t.v == "exists") {
		p.p++
		v := p.next()
		if v.k != "ident" {
			return nil, fmt.Errorf("expected bound variable")
		}
		in := p.next()
		if in.k != "ident" || in.v != "in" {
			return nil, fmt.Errorf("expected 'in'")
		}
		if err := p.expect("["); err != nil {
			return nil, err
		}
		lo, err := p.expr(0)
		if err != nil {
			return nil, err
		}
		if err := p.expect(","); err != nil {
			return nil, err
		}
		hi, err := p.expr(0)
		if err != nil {
			return nil, err
		}
		if err := p.expect(")"); err != nil {
			return nil, err
		}
		var trig *Spec
		if p.peek().k == "ident" && p.peek().v == "trig" {
			p.p++
			if err := p.expect("("); err != nil {
				return nil, err
			}
			trig, err = p.expr(0)
			if err != nil {
				return nil, err
			}
			if err := p.expect(")"); err != nil {
				return nil, err
			}
		}
		if err := p.expect(":"); err != nil {
			return nil, err
		}
		body, err := p.expr(0)
		if err != nil {
			return nil, err
		}
		return &Spec{Op: t.v, Name: v.v, Args: []*Spec{lo, hi, body}, Trig: trig}, nil
	}
	return p.postfix()
}

func (p *sparser) postfix() (*Spec, error) {
	var x *Spec
	t := p.next()
	switch t.k {
	case "num":
		x = &Spec{Op: "num", Name: t.v}
	case "str":
		x = &Spec{Op: "str", Name: t.v}
	case "ident":
		x = &Spec{Op: "ident", Name: t.v}
	case "op":
		if t.v == "(" {
			e, err := p.expr(0)
			if err != nil {
				return nil, err
			}
			if err := p.expect(")"); err != nil {
				return nil, err
			}
			x = e
		} else {
			return nil, fmt.Errorf("unexpected %q", t.v)
		}
	default:
		return nil, fmt.Errorf("unexpected end of expression")
	}
	for {
		switch {
		case p.isOp("."):
			p.p++
			f := p.next()
			if f.k != "ident" {
				return nil, fmt.Errorf("expected field name")
			}
			x = &Spec{Op: "sel", Name: f.v, Args: []*Spec{x}}
		case p.isOp("["):
			p.p++
			var lo *Spec
			var err error
			if !p.isOp(":") {
				lo, err = p.expr(0)
				if err != nil {
					return nil, err
				}
			}
			if p.isOp(":") {
				p.p++
				var hi *Spec
				if !p.isOp("]") {
					hi, err = p.expr(0)
					if err != nil {
						return nil, err
					}
				}
				if err := p.expect("]"); err != nil {
					return nil, err
				}
				x = &Spec{Op: "slice", Args: []*Spec{x, lo, hi}}
			} else {
				if err := p.expect("]"); err != nil {
					return nil, err
				}
				x = &Spec{Op: "index", Args: []*Spec{x, lo}}
			}
		case p.isOp("(") && x.Op == "ident":
			p.p++
			call := &Spec{Op: "call", Name: x.Name}
			for !p.isOp(")") {
				a, err := p.expr(0)
				if err != nil {
					return nil, err
				}
				call.Args = append(call.Args, a)
				if p.isOp(",") {
					p.p++
				}
			}
			p.p++
			x = call
		default:
			return x, nil
		}
	}
}

// splitConj splits a goal into conjuncts, distributing implications:
// A ==> (B && C)  becomes  A ==> B, A ==> C.
var pureDefs map[string]*PureDef

func substSpec(e *Spec, m map[string]*Spec) *Spec {
	if e == nil {
		return nil
	}
	if e.Op == "ident" {
		if r, ok := m[e.Name]; ok {
			return r
		}
		return e
	}
	n := &Spec{Op: e.Op, Name: e.Name, Trig: substSpec(e.Trig, m)}
	if e.Op == "forall" || e.Op == "exists" {
		// bound variable shadows
		if _, ok := m[e.Name]; ok {
			m2 := map[string]*Spec{}
			for k, v := range m {
				if k != e.Name {
					m2[k] = v
				}
			}
			m = m2
		}
	}
	for _, a := range e.Args {
		n.Args = append(n.Args, substSpec(a, m))
	}
	return n
}

func splitConj(e *Spec) []*Spec { return splitConjFrom(e, nil) }

func splitConjFrom(e *Spec, from *Spec) []*Spec {
	if e.Op == "call" && pureDefs != nil {
		if pd, ok := pureDefs[e.Name]; ok && strings.TrimSpace(pd.Ret) == "bool" && len(pd.Params) == len(e.Args) && pd.Body.Op == "bin" && pd.Body.Name == "&&" {
			m := map[string]*Spec{}
			for i, p := range pd.Params {
				m[p.Name] = e.Args[i]
			}
			if from == nil {
				from = e
			}
			return splitConjFrom(substSpec(pd.Body, m), from)
		}
	}
	if e.Op == "bin" && e.Name == "&&" {
		return append(splitConjFrom(e.Args[0], from), splitConjFrom(e.Args[1], from)...)
	}
	if from != nil {
		// inside the expansion of a predicate: deeper structure keeps the outermost call as its origin
		var out []*Spec
		for _, r := range splitInner(e) {
			c := *r
			c.From = from
			out = append(out, &c)
		}
		return out
	}
	return splitInner(e)
}

// splitInner splits below an implication / universal quantifier; origins of the parts are wrapped accordingly.
func splitInner(e *Spec) []*Spec {
	if e.Op == "bin" && e.Name == "==>" {
		var out []*Spec
		wrapped := map[*Spec]*Spec{}
		for _, r := range splitConjFrom(e.Args[1], nil) {
			n := &Spec{Op: "bin", Name: "==>", Args: []*Spec{e.Args[0], r}}
			if r.From != nil {
				w, ok := wrapped[r.From]
				if !ok {
					w = &Spec{Op: "bin", Name: "==>", Args: []*Spec{e.Args[0], r.From}}
					wrapped[r.From] = w
				}
				n.From = w
				rc := *r
				rc.From = nil
				n.Args[1] = &rc
			}
			out = append(out, n)
		}
		return out
	}
	if e.Op == "forall" {
		bodies := splitConjFrom(e.Args[2], nil)
		if len(bodies) > 1 {
			var out []*Spec
			wrapped := map[*Spec]*Spec{}
			for _, b := range bodies {
				n := &Spec{Op: "forall", Name: e.Name, Args: []*Spec{e.Args[0], e.Args[1], b}, Trig: e.Trig}
				if b.From != nil {
					w, ok := wrapped[b.From]
					if !ok {
						w = &Spec{Op: "forall", Name: e.Name, Args: []*Spec{e.Args[0], e.Args[1], b.From}, Trig: e.Trig}
						wrapped[b.From] = w
					}
					n.From = w
					bc := *b
					bc.From = nil
					n.Args[2] = &bc
				}
				out = append(out, n)
			}
			return out
		}
	}
	return []*Spec{e}
}

func ghostSortName(s string) string {
	switch s {
	case "bool":
		return "Bool"
	case "[int]int":
		return "(Array Int Int)"
	case "[int]bool":
		return "(Array Int Bool)"
	}
	return "Int"
}
