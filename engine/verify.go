package main

import (
	"path/filepath"
	"fmt"
	"go/types"
	"os"
	"runtime/debug"
	"sort"
	"strings"

	"golang.org/x/tools/go/ssa"
)

type FuncResult struct {
	Key          string
	Contract     bool
	Lemma        bool
	Obls         []*Obligation
	Ctx          *Ctx
	Error        string // engine could not process the function (out of subset / anchor missing)
	Notes        []string
	Modular      []string
	Inlined      []string
	Abstracted   []string
	Externs      []string
	Lemmas       []string
	Variant      string
	Returns      int
	LoopsTotal   int
	LoopsWithInv int
}

func (e *Engine) verifyFunc(key string, budget int) (res *FuncResult) {
	return e.verifyFuncFor(key, budget, "")
}

func (e *Engine) verifyFuncFor(key string, budget int, prop string) (res *FuncResult) {
	res = &FuncResult{Key: key}
	fn := e.funcs[key]
	if fn == nil {
		res.Error = "anchor-missing: function " + key + " not found in package"
		return
	}
	ct := e.cf.Funcs[key]
	res.Contract = ct != nil
	if ct != nil {
		res.Lemma = ct.Lemma
	}
	c := newCtx(key)
	res.Ctx = c
	x := &Exec{e: e, c: c, top: fn, budget: budget, prop: prop, funcsUsedModular: map[string]bool{}, funcsInlined: map[string]bool{}, funcsAbstracted: map[string]bool{}, externs: map[string]bool{}, lemmasUsed: map[string]bool{}}
	defer func() {
		if r := recover(); r != nil {
			if se, ok := r.(specError); ok {
				res.Error = "contract error: " + se.msg
				if os.Getenv("GOVC_DEBUG") != "" {
					res.Error += "\n" + string(debug.Stack())
				}
			} else {
				res.Error = fmt.Sprintf("engine: %v\n%s", r, debug.Stack())
			}
		}
		res.Obls = c.obls
		res.Notes = sortedKeys(c.notes)
		res.Modular = sortedKeys(x.funcsUsedModular)
		res.Inlined = sortedKeys(x.funcsInlined)
		res.Abstracted = sortedKeys(x.funcsAbstracted)
		res.Externs = sortedKeys(x.externs)
		res.Lemmas = sortedKeys(x.lemmasUsed)
	}()
	if ct != nil && ct.Trusted != "" {
		res.Notes = append(res.Notes, "trusted: "+ct.Trusted)
		return
	}
	fr := x.newFrame(fn, nil)
	fr.top = true
	fr.contract = ct
	st := newState(c, "0")
	w0 := c.declareNamed("W@0", "Int")
	c.assume(lt("0", w0))
	st.set("W", w0)
	for i, p := range fn.Params {
		v := c.declareNamed("p."+p.Name(), sortOf(p.Type()))
		c.inputs = append(c.inputs, v)
		fr.env[p] = v
		fr.cur = st
		fr.typeFacts(p.Type(), v)
		fr.loadFacts(p.Type(), v)
		// model expressions for replay: length and leading bytes of byte-slice / string parameters
		if sortOf(p.Type()) == "Slice" {
			isBytes := isString(p.Type())
			if st, ok := p.Type().Underlying().(*types.Slice); ok {
				if bits, _, ok := intInfo(st.Elem()); ok && bits == 8 {
					isBytes = true
				}
			}
			if isBytes {
				c.inputs = append(c.inputs, app("s-len", v))
				c.sliceInputs = append(c.sliceInputs, v)
			}
		}
		sv := sval{t: v, typ: p.Type(), sort: sortOf(p.Type())}
		fr.params[p.Name()] = sv
		fr.params[p.Name()+"0"] = sv
		if i == 0 && fn.Signature.Recv() != nil && (ct == nil || !ct.Nilable) && sortOf(p.Type()) == "Int" {
			if _, isPtr := p.Type().Underlying().(*types.Pointer); isPtr {
				c.assume(lt("0", v))
			}
		}
	}
	for _, fv := range fn.FreeVars {
		v := c.declareNamed("fv."+fv.Name(), sortOf(fv.Type()))
		fr.env[fv] = v
		fr.cur = st
		fr.typeFacts(fv.Type(), v)
		el := ptrElem(fv.Type())
		if el != nil && sortOf(fv.Type()) == "Int" {
			c.assume(lt("0", v))
		}
	}
	fr.entry = st
	fr.cur = st.clone()
	// count loops / invariants
	fr.findLoops()
	res.LoopsTotal = len(fr.loops)
	if ct != nil {
		seen := map[int]bool{}
		for _, cl := range ct.Clauses {
			if cl.Kind == "invariant" {
				seen[cl.Loop] = true
				if cl.Loop >= len(fr.loops) {
					// the loop the clause was written for is gone (e.g. a retry loop turned into a single attempt): the
					// clause is dropped with a note - whatever it was needed for then fails as an ordinary obligation
					// instead of leaving the function undecided
					x.c.note(fmt.Sprintf("contract line %d refers to loop %d of %s, which has %d loops: clause ignored", cl.Line, cl.Loop, key, len(fr.loops)))
					continue
				}
			}
		}
		res.LoopsWithInv = len(seen)
		for _, cl := range ct.Clauses {
			if cl.Kind == "cut" && cl.Loop < 0 {
				// cut: proved at entry in the main run of the property, assumed in the variant it is tagged with
				isVariant := false
				for _, p := range cl.Props {
					if p == x.prop {
						isVariant = true
					}
				}
				if isVariant {
					c.assume(fr.evalSpecBool(cl.Expr, fr.cur, nil, map[string]sval{}))
					x.externs[fmt.Sprintf("CUT assumed in variant %s of %s (proved at entry in the main run): %s", x.prop, key, cl.Text)] = true
				} else {
					base := false
					for _, p := range cl.Props {
						if i := strings.Index(p, "@"); i > 0 && p[:i] == x.prop {
							base = true
						}
					}
					if base || x.prop == "" {
						for _, cj := range splitConj(cl.Expr) {
							ncl := &Clause{Kind: "cut", Line: cl.Line}
							fr.proveSpec("cut", "cut formula proved at entry (assumed by the variant run): "+cj.String(), ncl, cj, fr.cur, nil, map[string]sval{})
						}
					}
				}
				continue
			}
			if !x.active(cl) || cl.Loop >= 0 {
				continue
			}
			if cl.Kind == "requires" || cl.Kind == "assume" || cl.Kind == "preserves" {
				t := fr.evalSpecBool(cl.Expr, fr.cur, nil, map[string]sval{})
				c.assume(t)
				if cl.Kind == "assume" {
					x.externs[fmt.Sprintf("ASSUMED (unchecked) in contract of %s: %s", key, cl.Text)] = true
				}
			}
		}
	}
	if ct != nil {
		var rely []*Clause
		for _, cl := range ct.Clauses {
			if cl.Kind == "preserves" {
				rely = append(rely, cl)
				x.externs[fmt.Sprintf("RELY in %s: unknown code (callbacks, interface methods, abstracted callees) preserves %s", key, cl.Text)] = true
			}
		}
		if len(rely) > 0 {
			c.onHavoc = func(st *State) {
				for _, cl := range rely {
					t := fr.evalSpecBool(cl.Expr, st, nil, map[string]sval{})
					c.assume(imp(st.reach, t))
				}
			}
		}
	}
	if ct != nil {
		for _, cl := range ct.Clauses {
			if cl.Kind == "apply" && cl.Loop < 0 {
				fr.applyLemma(cl, fr.cur, map[string]sval{})
			}
		}
	}
	fr.initGhosts()
	// vacuity guard: the assumptions so far must be satisfiable
	g := c.obligeX("vacuity", "preconditions are satisfiable (this obligation must NOT be provable)", "", nil, "true", "false", nil, false)
	g.MustFail = true
	start := fr.cur
	fr.run(start)
	if fr.rgPoints > 0 {
		x.c.note(fmt.Sprintf("rely/guarantee: %d interference points (every shared access and the return) in %s", fr.rgPoints, key))
	}
	res.Returns = len(fr.rets)
	return
}

// checkPost: postconditions and frame at a return of the function under verification.
func (fr *Frame) checkPost(ret *ssa.Return, vals []Term) {
	c := fr.c()
	ct := fr.contract
	g := c.obligeX("vacuity", "return at "+fr.posOf(ret)+" is reachable (must NOT be provable)", fr.posOf(ret), nil, fr.cur.reach, "false", nil, false)
	g.MustFail = true
	if ct == nil {
		return
	}
	vars := map[string]sval{}
	sig := fr.fn.Signature
	for i, v := range vals {
		t := sig.Results().At(i).Type()
		sv := sval{t: v, typ: t, sort: sortOf(t)}
		vars[fmt.Sprintf("r%d", i)] = sv
		if n := sig.Results().At(i).Name(); n != "" && n != "_" {
			vars[n] = sv
		}
	}
	if len(vals) == 1 {
		vars["result"] = vars["r0"]
	}
	for _, cl := range ct.Clauses {
		if cl.Kind != "hint" || cl.Loop >= 0 || !fr.x.active(cl) {
			continue
		}
		for _, cj := range splitConj(cl.Expr) {
			fr.proveSpec("hint", fmt.Sprintf("proof hint at return %s: %s", fr.x.e.pos(ret.Pos()), cj.String()), cl, cj, fr.cur, fr.entry, vars)
		}
	}
	for _, cl := range ct.Clauses {
		if cl.Kind != "ensures" && cl.Kind != "preserves" && cl.Kind != "exit" || !fr.x.active(cl) {
			continue
		}
		for _, cj := range splitConj(cl.Expr) {
			fr.proveSpec("post", fmt.Sprintf("postcondition at return %s: %s", fr.x.e.pos(ret.Pos()), cj.String()), cl, cj, fr.cur, fr.entry, vars)
		}
	}
	if hasModifies(ct) {
		fr.checkFrame(ret, ct)
	}
}

// checkFrame: everything outside the modifies clauses is unchanged for objects that existed at entry.
func (fr *Frame) checkFrame(ret *ssa.Return, ct *Contract) {
	c := fr.c()
	final, entry := fr.cur, fr.entry
	type allow struct {
		all    bool
		refs   []Term
		ranges []locInfo
	}
	allowed := map[string]*allow{}
	get := func(n string) *allow {
		if allowed[n] == nil {
			allowed[n] = &allow{}
		}
		return allowed[n]
	}
	heapAll := false
	var props []string
	for _, cl := range ct.Clauses {
		if cl.Kind != "modifies" {
			continue
		}
		props = cl.Props
		for _, loc := range cl.Locs {
			li := fr.evalLoc(loc, entry, fr.params)
			switch li.kind {
			case "heap":
				heapAll = true
			case "comp":
				get(li.comp).all = true
			case "field":
				get(li.comp).refs = append(get(li.comp).refs, li.ref)
			case "region":
				for _, k := range memAll {
					get(k).ranges = append(get(k).ranges, locInfo{reg: li.reg})
				}
			case "range":
				get(li.comp).ranges = append(get(li.comp).ranges, li)
			}
		}
	}
	if heapAll {
		return
	}
	if final.epochChanged(entry) {
		c.oblige("frame", "function calls code with unknown effects, so its modifies clause cannot be established", fr.posOf(ret), props, final.reach, "false")
		return
	}
	w0 := entry.get("W")
	names := sortedKeys(allWrittenNames(final, map[*State]bool{}, map[string]bool{}))
	for _, n := range names {
		if strings.HasPrefix(n, "L.") || n == "W" {
			continue
		}
		a := allowed[n]
		if a != nil && a.all {
			continue
		}
		fv, ev := final.get(n), entry.get(n)
		if fv == ev {
			continue
		}
		switch {
		case n == "M" || n == "MS" || n == "MR" || n == "MB" || n == "MP":
			r := c.fresh("sk.reg", "Int")
			i := c.fresh("sk.idx", "Int")
			var ok []Term
			if a != nil {
				for _, rg := range a.ranges {
					if rg.lo == "" {
						ok = append(ok, eq(r, rg.reg))
					} else {
						ok = append(ok, and(eq(r, rg.reg), le(rg.lo, i), lt(i, rg.hi)))
					}
				}
			}
			goal := imp(and(lt(r, w0), not(or(ok...))), eq(app("select", app("select", fv, r), i), app("select", app("select", ev, r), i)))
			c.oblige("frame", "memory outside the modifies clause is unchanged ("+n+")", fr.posOf(ret), props, final.reach, goal)
		case strings.HasPrefix(n, "G."):
			c.oblige("frame", "global "+n+" is unchanged", fr.posOf(ret), props, final.reach, eq(fv, ev))
		case n == "MAP" || n == "MAPOK":
			o := c.fresh("sk.map", "Int")
			c.oblige("frame", "maps that existed at entry are unchanged", fr.posOf(ret), props, final.reach, imp(and(lt("0", o), lt(o, w0)), eq(app("select", fv, o), app("select", ev, o))))
		default:
			o := c.fresh("sk.obj", "Int")
			var ne []Term
			if a != nil {
				for _, r := range a.refs {
					ne = append(ne, not(eq(o, r)))
				}
			}
			goal := imp(and(lt("0", o), lt(o, w0), and(ne...)), eq(app("select", fv, o), app("select", ev, o)))
			c.oblige("frame", "field "+n+" of objects outside the modifies clause is unchanged", fr.posOf(ret), props, final.reach, goal)
		}
	}
}

func (s *State) epochChanged(entry *State) bool {
	return rootEpochs(s, map[*State]bool{}, entry)
}

func rootEpochs(s *State, seen map[*State]bool, entry *State) bool {
	if seen[s] {
		return false
	}
	seen[s] = true
	if len(s.parents) == 0 {
		return s != entry && s.epoch != entry.epoch
	}
	for _, p := range s.parents {
		if rootEpochs(p.st, seen, entry) {
			return true
		}
	}
	return false
}

func filterObls(obls []*Obligation, prop string) []*Obligation {
	var out []*Obligation
	for _, o := range obls {
		if len(o.Props) == 0 {
			out = append(out, o)
			continue
		}
		for _, p := range o.Props {
			if p == prop {
				out = append(out, o)
				break
			}
		}
	}
	return out
}

func sortObls(obls []*Obligation) {
	sort.SliceStable(obls, func(i, j int) bool { return obls[i].ID < obls[j].ID })
}

// verifyArith proves a standalone arithmetic lemma (empty context, parameters universally quantified).
func (e *Engine) verifyArith(name string) (res *FuncResult) {
	key := "arith:" + name
	res = &FuncResult{Key: key, Contract: true, Lemma: true}
	pd := e.cf.Ariths[name]
	if pd == nil {
		res.Error = "anchor-missing: arith lemma " + name
		return
	}
	c := newCtx(key)
	res.Ctx = c
	defer func() {
		if r := recover(); r != nil {
			if se, ok := r.(specError); ok {
				res.Error = "contract error: " + se.msg
			} else {
				res.Error = fmt.Sprintf("engine: %v", r)
			}
		}
		res.Obls = c.obls
	}()
	var anyFn *ssa.Function
	for _, k := range e.sortedFuncKeys() {
		anyFn = e.funcs[k]
		break
	}
	x := &Exec{e: e, c: c, top: anyFn, funcsUsedModular: map[string]bool{}, funcsInlined: map[string]bool{}, funcsAbstracted: map[string]bool{}, externs: map[string]bool{}, lemmasUsed: map[string]bool{}}
	fr := x.newFrame(anyFn, nil)
	st := newState(c, "0")
	fr.cur, fr.entry = st, st
	vars := map[string]sval{}
	for _, p := range pd.Params {
		v := c.declareNamed("a."+p.Name, "Int")
		c.inputs = append(c.inputs, v)
		vars[p.Name] = mathInt(v)
	}
	for _, cj := range splitConj(pd.Body) {
		se := fr.specEnvFor(st, nil, vars, false)
		fr.proveSpecEnv("lemma", "arithmetic lemma "+name+": "+cj.String(), &Clause{Line: pd.Line}, cj, se)
	}
	return
}

// filterVariant: in a variant run (function@variant) only the obligations of clauses tagged with the
// variant are kept (plus the vacuity guards); the untagged safety obligations belong to the main run.
func filterVariant(obls []*Obligation, variant string) []*Obligation {
	var out []*Obligation
	for _, o := range obls {
		if o.MustFail {
			out = append(out, o)
			continue
		}
		for _, p := range o.Props {
			if p == variant {
				out = append(out, o)
				break
			}
		}
	}
	return out
}

// verifyWriters: the declared writer set of a field is exactly the set of functions that write it
func (e *Engine) verifyWriters(comp string) *FuncResult {
	key := "writers:" + comp
	res := &FuncResult{Key: key, Contract: true}
	c := newCtx(key)
	res.Ctx = c
	declared := map[string]bool{}
	for _, f := range e.cf.Writers[comp] {
		declared[f] = true
	}
	actual := e.writersOf(comp)
	for _, f := range actual {
		goal := "false"
		if declared[f] {
			goal = "true"
		}
		c.oblige("writers", "function "+f+" writes "+comp+": it must be one of the declared writers (each carries the transition obligations)", "", nil, "true", goal)
	}
	for f := range declared {
		found := false
		for _, a := range actual {
			if a == f {
				found = true
			}
		}
		if !found {
			c.note("declared writer " + f + " no longer writes " + comp)
		}
	}
	// every write instruction is a compare-and-swap that the writer's contract annotates (the annotation carries the
	// transition obligation): a plain or atomic store, a swap or an add on the field, or a compare-and-swap without
	// an annotated transition, fails here - per instruction, hence under every schedule. Plain stores into an
	// object allocated in the same function (initialisation) are exempt.
	for _, key := range actual {
		fn := e.funcs[key]
		if fn == nil {
			continue
		}
		ct := e.cf.Funcs[key]
		casN := 0
		for _, b := range fn.Blocks {
			for _, in := range b.Instrs {
				pos := e.prog.Fset.Position(in.Pos())
				where := fmt.Sprintf("%s:%d", filepath.Base(pos.Filename), pos.Line)
				switch x := in.(type) {
				case *ssa.Store:
					if cc, _ := e.staticFieldComp(x.Addr); cc == comp {
						fresh := false
						if fa, ok := x.Addr.(*ssa.FieldAddr); ok {
							_, fresh = fa.X.(*ssa.Alloc)
						}
						goal := "false"
						if fresh {
							goal = "true"
						}
						c.oblige("writers", "plain store to "+comp+" in "+key+" at "+where+": only the initialisation of a freshly allocated object may store it; every other write must be an annotated compare-and-swap", where, nil, "true", goal)
					}
				case *ssa.Call:
					f := x.Call.StaticCallee()
					if f == nil || f.Pkg == nil || f.Pkg.Pkg.Path() != "sync/atomic" || len(x.Call.Args) == 0 {
						continue
					}
					isCAS := strings.HasPrefix(f.Name(), "CompareAndSwap")
					mine := false
					if cc, _ := e.staticFieldComp(x.Call.Args[0]); cc == comp {
						mine = true
					}
					if mine && !isCAS && !strings.HasPrefix(f.Name(), "Load") {
						c.oblige("writers", "atomic."+f.Name()+" on "+comp+" in "+key+" at "+where+": every write of this field must be a compare-and-swap with an annotated forward transition", where, nil, "true", "false")
					}
					if isCAS && f.Name() == "CompareAndSwapUint32" {
						if mine {
							annotated := false
							if ct != nil {
								for _, ac := range ct.AtCalls {
									if (ac.Hint || ac.CheckOnly) && !ac.Assume && ac.N == casN && strings.HasSuffix("sync/atomic.CompareAndSwapUint32", ac.Callee) {
										annotated = true
									}
								}
							}
							goal := "false"
							if annotated {
								goal = "true"
							}
							c.oblige("writers", fmt.Sprintf("compare-and-swap #%d on %s in %s at %s carries an annotated transition (at call sync/atomic.CompareAndSwapUint32#%d hint ...)", casN, comp, key, where, casN), where, nil, "true", goal)
						}
						casN++
					}
				}
			}
		}
	}
	res.Obls = c.obls
	res.Notes = sortedKeys(c.notes)
	return res
}
