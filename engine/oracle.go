package main

// Oracle replay: for a few functions whose property-level behaviour has an executable reference (the IO queue's
// put/pop against an index-addressed abstract queue; the stream pool's push/pop against a ring), a violated
// obligation is followed by a search for a CONCRETE failing input on the real code: the state suggested by the
// solver's model (when there is one) and a small fixed set of probe states (capacities 0..8, head/tail around
// the wrap points) are built with the library's own constructors, the real function is called, and the result is
// compared with the reference. A hit makes the VIOLATION line carry a replayed failing input; no hit leaves
// "no-failing-input-found". The search is bounded and only serves the report: the verdict is the failed
// obligation, not this test.

import (
	"context"
	"encoding/json"
	"fmt"
	"os"
	"os/exec"
	"path/filepath"
	"strings"
	"sync"
	"time"
)

var oracleMu sync.Mutex
var oracleCache = map[string][2]string{}

const oracleQueueTest = `package shmipc

import (
	"fmt"
	"testing"
)

type vrState struct{ cap, head, size int64 }

func vrElem(k int64) queueElement {
	return queueElement{seqID: uint32(k*3 + 1), offsetInShmBuf: uint32(k*3 + 2), status: uint32(k*3 + 3)}
}

func vrQueue(s vrState) *queue {
	q := createQueue(uint32(s.cap))
	*q.head = s.head
	*q.tail = s.head + s.size
	for k := s.head; k < s.head+s.size; k++ {
		e := vrElem(k)
		off := (k %% s.cap) * queueElementLen
		*(*uint32)(unsafePointer(&q.queueBytesOnMemory[off])) = e.seqID
		*(*uint32)(unsafePointer(&q.queueBytesOnMemory[off+4])) = e.offsetInShmBuf
		*(*uint32)(unsafePointer(&q.queueBytesOnMemory[off+8])) = e.status
	}
	return q
}

func vrSlot(q *queue, k int64) queueElement {
	off := (k %% q.cap) * queueElementLen
	return queueElement{
		seqID:          *(*uint32)(unsafePointer(&q.queueBytesOnMemory[off])),
		offsetInShmBuf: *(*uint32)(unsafePointer(&q.queueBytesOnMemory[off+4])),
		status:         *(*uint32)(unsafePointer(&q.queueBytesOnMemory[off+8])),
	}
}

func vrStates() []vrState {
	var out []vrState
	%s
	for _, c := range []int64{0, 1, 2, 3, 5, 8} {
		for _, h := range []int64{0, 1, c - 1, c, 2*c + 1, 1<<40 + 3} {
			if h < 0 {
				continue
			}
			for _, n := range []int64{0, 1, c - 1, c} {
				if n < 0 || n > c {
					continue
				}
				out = append(out, vrState{c, h, n})
			}
		}
	}
	return out
}

func TestVerifOracleQueue(t *testing.T) {
	defer func() {
		if r := recover(); r != nil {
			fmt.Printf("REPLAY-VIOLATED: panic: %%v\n", r)
		}
	}()
	for _, s := range vrStates() {
		// put
		q := vrQueue(s)
		e := queueElement{seqID: 0xA1B2C3D4, offsetInShmBuf: 0x11223344, status: 0x55667788}
		err := q.put(e)
		if s.size >= s.cap {
			if err != ErrQueueFull || *q.head != s.head || *q.tail != s.head+s.size {
				fmt.Printf("REPLAY-VIOLATED: put on a full queue cap=%%d head=%%d tail=%%d: err=%%v head=%%d tail=%%d\n", s.cap, s.head, s.head+s.size, err, *q.head, *q.tail)
				return
			}
		} else {
			if err != nil || *q.head != s.head || *q.tail != s.head+s.size+1 || vrSlot(q, s.head+s.size) != e {
				fmt.Printf("REPLAY-VIOLATED: put(%%+v) with cap=%%d head=%%d tail=%%d: err=%%v head=%%d tail=%%d, slot of the new element holds %%+v\n", e, s.cap, s.head, s.head+s.size, err, *q.head, *q.tail, vrSlot(q, s.head+s.size))
				return
			}
		}
		for k := s.head; k < s.head+s.size; k++ {
			if s.cap > 0 && vrSlot(q, k) != vrElem(k) {
				fmt.Printf("REPLAY-VIOLATED: put with cap=%%d head=%%d tail=%%d changed the live element #%%d: %%+v, was %%+v\n", s.cap, s.head, s.head+s.size, k, vrSlot(q, k), vrElem(k))
				return
			}
		}
		// pop
		q = vrQueue(s)
		got, err := q.pop()
		if s.size == 0 {
			if err != errQueueEmpty || *q.head != s.head || *q.tail != s.head {
				fmt.Printf("REPLAY-VIOLATED: pop on an empty queue cap=%%d head=%%d: err=%%v head=%%d tail=%%d\n", s.cap, s.head, err, *q.head, *q.tail)
				return
			}
		} else {
			if err != nil || got != vrElem(s.head) || *q.head != s.head+1 || *q.tail != s.head+s.size {
				fmt.Printf("REPLAY-VIOLATED: pop with cap=%%d head=%%d tail=%%d returned %%+v err=%%v (element #%%d is %%+v); head=%%d tail=%%d afterwards\n", s.cap, s.head, s.head+s.size, got, err, s.head, vrElem(s.head), *q.head, *q.tail)
				return
			}
			for k := s.head + 1; k < s.head+s.size; k++ {
				if vrSlot(q, k) != vrElem(k) {
					fmt.Printf("REPLAY-VIOLATED: pop with cap=%%d head=%%d tail=%%d changed the live element #%%d\n", s.cap, s.head, s.head+s.size, k)
					return
				}
			}
		}
	}
	fmt.Println("REPLAY-NO-VIOLATION")
}
`


const oraclePoolTest = `package shmipc

import (
	"fmt"
	"testing"
)

func vpPool(c, h, n uint64) (*streamPool, []*Stream) {
	p := &streamPool{streams: make([]*Stream, c), capacity: uint32(c), head: h, tail: h + n}
	var all []*Stream
	for k := h; k < h+n; k++ {
		st := &Stream{id: uint32(k + 1)}
		p.streams[k%c] = st
		all = append(all, st)
	}
	return p, all
}

func vpID(s *Stream) int64 {
	if s == nil {
		return -1
	}
	return int64(s.id)
}

func TestVerifOraclePool(t *testing.T) {
	defer func() {
		if r := recover(); r != nil {
			fmt.Printf("REPLAY-VIOLATED: panic: %v\n", r)
		}
	}()
	for _, c := range []uint64{1, 2, 3, 5} {
		for _, h := range []uint64{0, 1, c - 1, c, 2*c + 1, 1<<40 + 3} {
			for n := uint64(0); n <= c; n++ {
				p, all := vpPool(c, h, n)
				s := &Stream{id: 0xEEEE}
				err := p.push(s)
				if n >= c {
					if err != errPoolFull || p.head != h || p.tail != h+n {
						fmt.Printf("REPLAY-VIOLATED: push on a full pool cap=%d head=%d tail=%d: err=%v head=%d tail=%d\n", c, h, h+n, err, p.head, p.tail)
						return
					}
				} else if err != nil || p.head != h || p.tail != h+n+1 || p.streams[(h+n)%c] != s {
					fmt.Printf("REPLAY-VIOLATED: push with cap=%d head=%d tail=%d: err=%v head=%d tail=%d, slot of the new stream holds %p want %p\n", c, h, h+n, err, p.head, p.tail, p.streams[(h+n)%c], s)
					return
				}
				for i, st := range all {
					if p.streams[(h+uint64(i))%c] != st {
						fmt.Printf("REPLAY-VIOLATED: push with cap=%d head=%d tail=%d replaced the pooled stream #%d\n", c, h, h+n, h+uint64(i))
						return
					}
				}
				p, all = vpPool(c, h, n)
				got := p.pop()
				if n == 0 {
					if got != nil || p.head != h || p.tail != h {
						fmt.Printf("REPLAY-VIOLATED: pop on an empty pool cap=%d head=%d: got %p head=%d tail=%d\n", c, h, got, p.head, p.tail)
						return
					}
				} else if got != all[0] || p.head != h+1 || p.tail != h+n {
					fmt.Printf("REPLAY-VIOLATED: pop with cap=%d head=%d tail=%d returned the stream with id %d (-1: nil), want the stream pooled first (id %d); head=%d tail=%d afterwards\n", c, h, h+n, vpID(got), all[0].id, p.head, p.tail)
					return
				}
			}
		}
	}
	fmt.Println("REPLAY-NO-VIOLATION")
}
`


const oracleListTest = `package shmipc

import (
	"fmt"
	"testing"
)

// walk the free chain from head through the headers; returns the slot offsets visited (at most limit)
func vlWalk(l *bufferList, limit int) []uint32 {
	var out []uint32
	off := *l.head
	for i := 0; i < limit; i++ {
		out = append(out, off)
		if int(off)+bufferHeaderSize > len(l.bufferRegion) {
			break
		}
		h := bufferHeader(l.bufferRegion[off : off+bufferHeaderSize])
		if !h.hasNext() {
			break
		}
		off = h.nextBufferOffset()
	}
	return out
}

func vlCheckList(tag string, l *bufferList, num, cpb uint32) bool {
	stride := cpb + bufferHeaderSize
	if uint32(*l.size) != num {
		fmt.Printf("REPLAY-VIOLATED: %s: free counter %d, capacity %d (all buffers are back)\n", tag, *l.size, num)
		return false
	}
	w := vlWalk(l, int(num)+2)
	seen := map[uint32]bool{}
	for _, o := range w {
		if o%stride != 0 || o+stride > uint32(len(l.bufferRegion)) || seen[o] {
			fmt.Printf("REPLAY-VIOLATED: %s: the free chain visits offset %d (stride %d, region %d bytes, already seen: %v): chain %v\n", tag, o, stride, len(l.bufferRegion), seen[o], w)
			return false
		}
		seen[o] = true
	}
	if uint32(len(w)) != num || w[len(w)-1] != *l.tail {
		fmt.Printf("REPLAY-VIOLATED: %s: the free chain has %d slots ending at %d, want %d slots ending at the tail %d: chain %v\n", tag, len(w), w[len(w)-1], num, *l.tail, w)
		return false
	}
	return true
}

func TestVerifOracleList(t *testing.T) {
	defer func() {
		if r := recover(); r != nil {
			fmt.Printf("REPLAY-VIOLATED: panic: %v\n", r)
		}
	}()
	for _, num := range []uint32{1, 2, 3, 6} {
		for _, cpb := range []uint32{1, 8, 64} {
			stride := cpb + bufferHeaderSize
			mem := make([]byte, 7+bufferListHeaderSize+int(num*stride)+5)
			l, err := createFreeBufferList(num, cpb, mem, 7)
			if err != nil {
				fmt.Printf("REPLAY-VIOLATED: createFreeBufferList(%d, %d) failed: %v\n", num, cpb, err)
				return
			}
			tag := fmt.Sprintf("list of %d slots of %d bytes", num, cpb)
			if !vlCheckList(tag+" after creation", l, num, cpb) {
				return
			}
			if m, err := mappingFreeBufferList(mem, 7); err != nil || len(m.bufferRegion) != len(l.bufferRegion) || &m.bufferRegion[0] != &l.bufferRegion[0] || m.bufferRegionOffsetInShm != l.bufferRegionOffsetInShm || *m.cap != num || *m.capPerBuffer != cpb {
				fmt.Printf("REPLAY-VIOLATED: %s: the mapping side does not reconstruct the list (err=%v)\n", tag, err)
				return
			}
			for round := 0; round < 3; round++ {
				var held []*bufferSlice
				seen := map[uint32]bool{}
				for {
					s, err := l.pop()
					if err != nil {
						break
					}
					rel := s.offsetInShm - l.bufferRegionOffsetInShm
					if rel%stride != 0 || rel+stride > uint32(len(l.bufferRegion)) || seen[rel] || s.cap != cpb || uint32(len(s.data)) != cpb || !s.isFromShm || len(s.bufferHeader) != bufferHeaderSize {
						fmt.Printf("REPLAY-VIOLATED: %s, round %d: pop handed out offset %d cap %d len(data) %d header %d (stride %d, region %d bytes, handed out before: %v)\n", tag, round, rel, s.cap, len(s.data), len(s.bufferHeader), stride, len(l.bufferRegion), seen[rel])
						return
					}
					if &s.data[0] != &l.bufferRegion[rel+bufferHeaderSize] || &s.bufferHeader[0] != &l.bufferRegion[rel] {
						fmt.Printf("REPLAY-VIOLATED: %s, round %d: the buffer at offset %d does not point at its slot\n", tag, round, rel)
						return
					}
					if bufferHeader(s.bufferHeader).hasNext() || !bufferHeader(s.bufferHeader).isInUsed() {
						fmt.Printf("REPLAY-VIOLATED: %s, round %d: the buffer handed out at offset %d still carries a link to the next free slot (hasNext=%v inUsed=%v)\n", tag, round, rel, bufferHeader(s.bufferHeader).hasNext(), bufferHeader(s.bufferHeader).isInUsed())
						return
					}
					seen[rel] = true
					for i := range s.data {
						s.data[i] = 0xAB
					}
					held = append(held, s)
					if len(held) > int(num) {
						fmt.Printf("REPLAY-VIOLATED: %s: more buffers handed out than slots\n", tag)
						return
					}
				}
				if uint32(len(held)) != num-1 || *l.size != 1 {
					fmt.Printf("REPLAY-VIOLATED: %s, round %d: %d buffers handed out, free counter %d (want %d and 1)\n", tag, round, len(held), *l.size, num-1)
					return
				}
				// give them back in a round-dependent order
				for i := range held {
					j := i
					if round == 1 {
						j = len(held) - 1 - i
					}
					l.push(held[j])
				}
				if !vlCheckList(fmt.Sprintf("%s after round %d", tag, round), l, num, cpb) {
					return
				}
			}
		}
	}
	// manager level: classes of equal and of different capacity
	for _, pairs := range [][]*SizePercentPair{{{Size: 64, Percent: 50}, {Size: 64, Percent: 50}}, {{Size: 32, Percent: 30}, {Size: 128, Percent: 70}}, {{Size: 8, Percent: 50}, {Size: 8, Percent: 50}}} {
		mem := make([]byte, 1<<15)
		bm, err := createBufferManager(pairs, "", mem, 0)
		if err != nil {
			fmt.Printf("REPLAY-VIOLATED: createBufferManager failed: %v\n", err)
			return
		}
		var caps []uint32
		for _, l := range bm.lists {
			caps = append(caps, *l.cap)
		}
		var held []*bufferSlice
		for _, want := range []uint32{33, 1, 9, 32, 64, 100, 128} {
			for {
				s, err := bm.allocShmBuffer(want)
				if err != nil {
					break
				}
				if s.cap < want {
					fmt.Printf("REPLAY-VIOLATED: allocShmBuffer(%d) returned a buffer of capacity %d\n", want, s.cap)
					return
				}
				held = append(held, s)
			}
		}
		for _, s := range held {
			bm.recycleBuffer(s)
		}
		for i, l := range bm.lists {
			if !vlCheckList(fmt.Sprintf("manager with sizes %d/%d, class %d after recycling everything", pairs[0].Size, pairs[1].Size, i), l, caps[i], *l.capPerBuffer) {
				return
			}
		}
	}
	fmt.Println("REPLAY-NO-VIOLATION")
}
`


const oracleBufTest = `package shmipc

import (
	"bytes"
	"fmt"
	"math/rand"
	"testing"
)

// byte-pipe reference: every byte written comes out once, in order, whatever mix of calls and sizes is used;
// Len is written minus consumed; Peek consumes nothing; ReadBytes/Peek results stay intact until released.
func TestVerifOracleBuf(t *testing.T) {
	defer func() {
		if r := recover(); r != nil {
			fmt.Printf("REPLAY-VIOLATED: panic: %v\n", r)
		}
	}()
	for seed := int64(1); seed <= 60; seed++ {
		rnd := rand.New(rand.NewSource(seed))
		mem := make([]byte, 1<<16)
		bm, err := createBufferManager([]*SizePercentPair{{Size: 16, Percent: 30}, {Size: 64, Percent: 30}, {Size: 256, Percent: 40}}, "", mem, 0)
		if err != nil {
			fmt.Printf("REPLAY-VIOLATED: createBufferManager: %v\n", err)
			return
		}
		l := newEmptyLinkedBuffer(bm)
		var ref []byte
		var trace []string
		next := byte(1)
		fill := func(b []byte) {
			for i := range b {
				b[i] = next
				next++
				if next == 0 {
					next = 1
				}
			}
		}
		for k := 0; k < 4+rnd.Intn(5); k++ {
			n := 1 + rnd.Intn(300)
			switch rnd.Intn(3) {
			case 0:
				d := make([]byte, n)
				fill(d)
				w, err := l.WriteBytes(d)
				trace = append(trace, fmt.Sprintf("WriteBytes(%d)", n))
				if err != nil || w != n {
					fmt.Printf("REPLAY-VIOLATED: seed %d %v: WriteBytes returned (%d, %v)\n", seed, trace, w, err)
					return
				}
				ref = append(ref, d...)
			case 1:
				if n > 256 {
					n = 256
				}
				r, err := l.Reserve(n)
				trace = append(trace, fmt.Sprintf("Reserve(%d)", n))
				if err != nil || len(r) != n {
					fmt.Printf("REPLAY-VIOLATED: seed %d %v: Reserve returned len %d err %v\n", seed, trace, len(r), err)
					return
				}
				fill(r)
				ref = append(ref, r...)
			case 2:
				b := next
				next++
				if next == 0 {
					next = 1
				}
				l.WriteByte(b)
				trace = append(trace, "WriteByte")
				ref = append(ref, b)
			}
			if l.Len() != len(ref) {
				fmt.Printf("REPLAY-VIOLATED: seed %d %v: Len() == %d after writing %d bytes\n", seed, trace, l.Len(), len(ref))
				return
			}
		}
		type pinned struct {
			got  []byte
			want []byte
		}
		var pins []pinned
		for len(ref) > 0 {
			n := 1 + rnd.Intn(len(ref))
			if n > 200 {
				n = 1 + rnd.Intn(200)
			}
			op := rnd.Intn(6)
			var got []byte
			var err error
			consumed := n
			switch op {
			case 0:
				got, err = l.ReadBytes(n)
				trace = append(trace, fmt.Sprintf("ReadBytes(%d)", n))
				pins = append(pins, pinned{got, append([]byte{}, ref[:n]...)})
			case 1:
				got, err = l.Peek(n)
				trace = append(trace, fmt.Sprintf("Peek(%d)", n))
				consumed = 0
				pins = append(pins, pinned{got, append([]byte{}, ref[:n]...)})
			case 2:
				var d int
				d, err = l.Discard(n)
				trace = append(trace, fmt.Sprintf("Discard(%d)", n))
				if d != n {
					fmt.Printf("REPLAY-VIOLATED: seed %d %v: Discard returned %d\n", seed, trace, d)
					return
				}
				got = ref[:n]
			case 3:
				var b byte
				b, err = l.ReadByte()
				trace = append(trace, "ReadByte")
				got, n, consumed = []byte{b}, 1, 1
			case 4:
				var str string
				str, err = l.ReadString(n)
				trace = append(trace, fmt.Sprintf("ReadString(%d)", n))
				got = []byte(str)
			case 5:
				p := make([]byte, n)
				var m int
				m, err = l.read(p)
				trace = append(trace, fmt.Sprintf("read(%d)", n))
				if m <= 0 || m > n {
					fmt.Printf("REPLAY-VIOLATED: seed %d %v: read returned %d\n", seed, trace, m)
					return
				}
				got, n, consumed = p[:m], m, m
			}
			if err != nil || !bytes.Equal(got, ref[:n]) {
				fmt.Printf("REPLAY-VIOLATED: seed %d %v: got %d bytes %v (err %v), the next %d bytes written were %v\n", seed, trace, len(got), head8(got), err, n, head8(ref[:n]))
				return
			}
			ref = ref[consumed:]
			if l.Len() != len(ref) {
				fmt.Printf("REPLAY-VIOLATED: seed %d %v: Len() == %d, %d bytes are unread\n", seed, trace, l.Len(), len(ref))
				return
			}
			// unrelated allocations: take every free buffer, overwrite its payload, give it back - a slice that was
			// recycled while a zero-copy result still points into it shows up as changed contents
			for _, fl := range bm.lists {
				var tmp []*bufferSlice
				for {
					b, err := fl.pop()
					if err != nil {
						break
					}
					for i := range b.data {
						b.data[i] = 0xEE
					}
					tmp = append(tmp, b)
				}
				for _, b := range tmp {
					fl.push(b)
				}
			}
			for _, pn := range pins {
				if !bytes.Equal(pn.got, pn.want) {
					fmt.Printf("REPLAY-VIOLATED: seed %d %v: a slice returned by an earlier ReadBytes changed before ReleasePreviousRead\n", seed, trace)
					return
				}
			}
			if rnd.Intn(4) == 0 {
				l.ReleasePreviousRead()
				trace = append(trace, "ReleasePreviousRead")
				pins = nil
			}
		}
		// everything was read: after the release and the final recycle every buffer is back in its class
		l.ReleasePreviousRead()
		l.recycle()
		for i, fl := range bm.lists {
			if uint32(*fl.size) != *fl.cap {
				fmt.Printf("REPLAY-VIOLATED: seed %d %v, then ReleasePreviousRead and recycle: class %d has %d free buffers of %d (a buffer leaked or was returned twice)\n", seed, trace, i, *fl.size, *fl.cap)
				return
			}
		}
	}
	// chains handed over in shared memory: build a chain of n linked slices through the headers, give it back with
	// recycleBuffers (the receiver's way of dropping an orphan message)
	for n := 1; n <= 4; n++ {
		mem := make([]byte, 1<<14)
		bm, err := createBufferManager([]*SizePercentPair{{Size: 32, Percent: 100}}, "", mem, 0)
		if err != nil {
			fmt.Printf("REPLAY-VIOLATED: createBufferManager: %v\n", err)
			return
		}
		var chain []*bufferSlice
		for i := 0; i < n; i++ {
			s, err := bm.allocShmBuffer(32)
			if err != nil {
				fmt.Printf("REPLAY-VIOLATED: allocShmBuffer: %v\n", err)
				return
			}
			s.append(byte(i + 1))
			chain = append(chain, s)
		}
		for i := 0; i < n; i++ {
			if i+1 < n {
				chain[i].nextSlice = chain[i+1]
			}
			chain[i].update()
		}
		head, err := bm.readBufferSlice(chain[0].offsetInShm)
		if err != nil {
			fmt.Printf("REPLAY-VIOLATED: readBufferSlice of a freshly written chain head: %v\n", err)
			return
		}
		bm.recycleBuffers(head)
		if fl := bm.lists[0]; uint32(*fl.size) != *fl.cap {
			fmt.Printf("REPLAY-VIOLATED: a chain of %d linked slices given back with recycleBuffers: %d free buffers of %d\n", n, *fl.size, *fl.cap)
			return
		}
	}
	fmt.Println("REPLAY-NO-VIOLATION")
}

func head8(b []byte) []byte {
	if len(b) > 8 {
		return b[:8]
	}
	return b
}
`


const oracleLayoutTest = `package shmipc

import (
	"fmt"
	"testing"
	"unsafe"
)

func vyOff(mem []byte, p unsafe.Pointer) int {
	return int(uintptr(p) - uintptr(unsafe.Pointer(&mem[0])))
}

// both sides derive the same layout: create on one side, map on the other, compare every offset; classes are
// disjoint, ordered and inside the mapping; the two queues are cross-wired.
func TestVerifOracleLayout(t *testing.T) {
	defer func() {
		if r := recover(); r != nil {
			fmt.Printf("REPLAY-VIOLATED: panic: %v\n", r)
		}
	}()
	cfgs := [][]*SizePercentPair{
		{{Size: 64, Percent: 100}},
		{{Size: 16, Percent: 50}, {Size: 200, Percent: 50}},
		{{Size: 8, Percent: 10}, {Size: 100, Percent: 30}, {Size: 1000, Percent: 60}},
		{{Size: 4096, Percent: 1}, {Size: 32, Percent: 99}},
	}
	for ci, pairs := range cfgs {
		for _, size := range []int{1 << 13, 1<<15 + 13, 70001} {
			for _, off := range []uint32{0, 24, 1000} {
				mem := make([]byte, size)
				a, err := createBufferManager(pairs, "", mem, off)
				if err != nil {
					continue // too small for this configuration: allowed to fail
				}
				b, err := mappingBufferManager("", mem, off)
				tag := fmt.Sprintf("config %d, %d bytes, offset %d", ci, size, off)
				if err != nil || len(a.lists) != len(b.lists) {
					fmt.Printf("REPLAY-VIOLATED: %s: the peer cannot map what was created (err=%v, %d vs %d classes)\n", tag, err, len(a.lists), len(b.lists))
					return
				}
				prevEnd := int(off)
				for i := range a.lists {
					x, y := a.lists[i], b.lists[i]
					stride := int(*x.capPerBuffer) + bufferHeaderSize
					xs := vyOff(mem, unsafe.Pointer(&x.bufferRegion[0]))
					if *x.cap != *y.cap || *x.capPerBuffer != *y.capPerBuffer || x.bufferRegionOffsetInShm != y.bufferRegionOffsetInShm || x.offsetInShm != y.offsetInShm ||
						len(x.bufferRegion) != len(y.bufferRegion) || &x.bufferRegion[0] != &y.bufferRegion[0] ||
						x.size != y.size || x.head != y.head || x.tail != y.tail || x.cap != y.cap || x.capPerBuffer != y.capPerBuffer {
						fmt.Printf("REPLAY-VIOLATED: %s, class %d: creator and peer disagree (cap %d/%d, capPerBuffer %d/%d, region offset %d/%d, len %d/%d)\n", tag, i, *x.cap, *y.cap, *x.capPerBuffer, *y.capPerBuffer, x.bufferRegionOffsetInShm, y.bufferRegionOffsetInShm, len(x.bufferRegion), len(y.bufferRegion))
						return
					}
					if *x.capPerBuffer != pairs[i].Size || len(x.bufferRegion) != int(*x.cap)*stride || xs != int(x.bufferRegionOffsetInShm) || int(x.offsetInShm)+bufferListHeaderSize != xs ||
						vyOff(mem, unsafe.Pointer(x.size)) != int(x.offsetInShm) || int(x.offsetInShm) < prevEnd || xs+len(x.bufferRegion) > len(mem) {
						fmt.Printf("REPLAY-VIOLATED: %s, class %d: header at %d, slots at %d..%d (%d slots of %d+20 bytes), previous class ends at %d, mapping %d bytes\n", tag, i, x.offsetInShm, xs, xs+len(x.bufferRegion), *x.cap, *x.capPerBuffer, prevEnd, len(mem))
						return
					}
					prevEnd = xs + len(x.bufferRegion)
				}
			}
		}
	}
	for _, c := range []uint32{0, 1, 3, 64} {
		data := make([]byte, countQueueMemSize(c)+5)
		q := createQueueFromBytes(data, c)
		m := mappingQueueFromBytes(data)
		if q.cap != m.cap || q.head != m.head || q.tail != m.tail || q.workingFlag != m.workingFlag || len(q.queueBytesOnMemory) != len(m.queueBytesOnMemory) ||
			(c > 0 && &q.queueBytesOnMemory[0] != &m.queueBytesOnMemory[0]) || len(q.queueBytesOnMemory) != int(c)*queueElementLen {
			fmt.Printf("REPLAY-VIOLATED: queue of capacity %d: creator and peer disagree on the layout\n", c)
			return
		}
	}
	qm, err := createQueueManagerWithMemFd("verif-oracle-queue", 8)
	if err == nil {
		pm, err := mappingQueueManagerMemfd("verif-oracle-queue", qm.memFd)
		if err != nil {
			fmt.Printf("REPLAY-VIOLATED: the peer cannot map the queue pair: %v\n", err)
			return
		}
		qm.sendQueue.put(queueElement{seqID: 7})
		qm.recvQueue.put(queueElement{seqID: 9})
		e1, err1 := pm.recvQueue.pop()
		e2, err2 := pm.sendQueue.pop()
		if err1 != nil || err2 != nil || e1.seqID != 7 || e2.seqID != 9 {
			fmt.Printf("REPLAY-VIOLATED: the queues are not cross-wired: what one side sends (7) the other receives as %d (err %v); the reverse direction (9) as %d (err %v)\n", e1.seqID, err1, e2.seqID, err2)
			return
		}
	}
	fmt.Println("REPLAY-NO-VIOLATION")
}
`

// oracleReplay runs the executable reference for the function of a failed obligation (if there is one).
func oracleReplay(e *Engine, o *Obligation, dir string) (bool, string) {
	key := o.Func
	if i := strings.Index(key, "@"); i > 0 {
		key = key[:i]
	}
	which := ""
	switch key {
	case "(*queue).put", "(*queue).pop":
		which = "queue"
	case "(*streamPool).push", "(*streamPool).pop":
		which = "pool"
	case "mappingBufferManager", "countBufferListMemSize", "createQueueFromBytes", "mappingQueueFromBytes", "createQueue", "countQueueMemSize",
		"createQueueManagerWithMemFd", "createQueueManager", "mappingQueueManagerMemfd", "mappingQueueManager", "lemmaCreateThenMapList", "lemmaCreateThenMapQueue":
		which = "layout"
	case "(*bufferList).pop", "(*bufferList).push", "createFreeBufferList", "mappingFreeBufferList", "newBufferSlice", "(*bufferSlice).reset",
		"(bufferHeader).hasNext", "(bufferHeader).nextBufferOffset", "(bufferHeader).clearFlag", "(bufferHeader).setInUsed", "(bufferHeader).linkNext",
		"(*bufferManager).recycleBuffer", "(*bufferManager).allocShmBuffer", "createBufferManager":
		which = "list"
	case "(*linkedBuffer).ReadBytes", "(*linkedBuffer).Peek", "(*linkedBuffer).Discard", "(*linkedBuffer).ReadByte", "(*linkedBuffer).ReadString", "(*linkedBuffer).read",
		"(*linkedBuffer).readNextSlice", "(*linkedBuffer).Len", "(*linkedBuffer).appendBufferSlice", "(*linkedBuffer).cleanPinnedList", "(*linkedBuffer).ReleasePreviousRead",
		"(*bufferSlice).append", "(*bufferSlice).reserve", "(*bufferSlice).read", "(*bufferSlice).peek", "(*bufferSlice).skip", "(*bufferSlice).size", "(*bufferSlice).remain",
		"(*sliceList).pushBack", "(*sliceList).popFront", "(*sliceList).front", "(*sliceList).back",
		"(*linkedBuffer).recycle", "(*linkedBuffer).clean", "(*bufferManager).recycleBuffers", "(*bufferSlice).update", "(*bufferManager).readBufferSlice":
		which = "buf"
	case "(*Session).OpenStream":
		return scheduleReplay(e, []string{"F13", "F14"})
	default:
		return false, ""
	}
	oracleMu.Lock()
	defer oracleMu.Unlock()
	if r, ok := oracleCache[which]; ok {
		return r[0] == "1", r[1]
	}
	// a state suggested by the model, when it names one
	extra := ""
	if c, ok := modelInt(o.Model, "(select F.queue.cap@0 p.q)"); ok && c >= 0 && c <= 1<<16 {
		extra = fmt.Sprintf("out = append(out, vrState{%d, 0, 0}, vrState{%d, 1, %d})", c, c, c)
	}
	src := fmt.Sprintf(oracleQueueTest, extra)
	src = strings.Replace(src, "import (\n\t\"fmt\"\n\t\"testing\"\n)", "import (\n\t\"fmt\"\n\t\"testing\"\n\t\"unsafe\"\n)\n\nfunc unsafePointer(p *byte) unsafe.Pointer { return unsafe.Pointer(p) }", 1)
	runName, what := "^TestVerifOracleQueue$", "put/pop on concrete queue states (bounded search: capacities 0..8, head/tail around the wrap points, plus the state suggested by the model)"
	if which == "pool" {
		src = oraclePoolTest
		runName, what = "^TestVerifOraclePool$", "push/pop on concrete pool states (bounded search: capacities 1..5, head/tail around the wrap points)"
	}
	if which == "layout" {
		src = oracleLayoutTest
		runName, what = "^TestVerifOracleLayout$", "layout (bounded search: 4 configurations x 3 mapping sizes x 3 start offsets created on one side and mapped on the other, every offset compared; queues of capacity 0/1/3/64; a memfd queue pair checked for cross-wiring)"
	}
	if which == "buf" {
		src = oracleBufTest
		runName, what = "^TestVerifOracleBuf$", "byte pipe (bounded search: 60 seeded random sequences of WriteBytes/Reserve/WriteByte followed by ReadBytes/Peek/Discard/ReadByte/ReadString/read of random sizes over 16/64/256-byte slices, compared with a reference byte queue; zero-copy results re-checked until ReleasePreviousRead; afterwards every buffer must be back in its class; chains of 1..4 linked slices given back with recycleBuffers)"
	}
	if which == "list" {
		src = oracleListTest
		runName, what = "^TestVerifOracleList$", "allocator on concrete lists (bounded search: 1..6 slots of 1/8/64 bytes, three drain-and-refill rounds in different orders; managers with equal and different class sizes): distinct in-region slot-aligned buffers of the advertised capacity, free counter and chain walk restored"
	}
	testFile := filepath.Join(dir, "zz_verif_oracle_test.go")
	if err := os.WriteFile(testFile, []byte(src), 0o644); err != nil {
		return false, err.Error()
	}
	ov, _ := json.Marshal(map[string]interface{}{"Replace": map[string]string{filepath.Join(e.repo, "zz_verif_oracle_test.go"): testFile}})
	ovFile := filepath.Join(dir, "overlay_oracle.json")
	os.WriteFile(ovFile, ov, 0o644)
	ctx, cancel := context.WithTimeout(context.Background(), 180*time.Second)
	defer cancel()
	cmd := exec.CommandContext(ctx, "go", "test", "-overlay", ovFile, "-vet=off", "-count=1", "-timeout", "60s", "-run", runName, "-v", ".")
	cmd.Dir = e.repo
	cmd.Env = append(os.Environ(), "GOFLAGS=-mod=mod", "GOPROXY=off", "GOSUMDB=off", "GOTOOLCHAIN=local", "SHMIPC_LOG_LEVEL=5")
	out, _ := cmd.CombinedOutput()
	res := string(out)
	detail := "reference check of the real " + what + ":\n" + lastLines(res, 6)
	ok := strings.Contains(res, "REPLAY-VIOLATED")
	if ok {
		for _, ln := range strings.Split(res, "\n") {
			if strings.HasPrefix(ln, "REPLAY-VIOLATED") {
				detail = ln + "\n(" + strings.SplitN(detail, "\n", 2)[0] + ")"
				break
			}
		}
	}
	v := "0"
	if ok {
		v = "1"
	}
	oracleCache[which] = [2]string{v, detail}
	return ok, detail
}

// scheduleReplay runs the recorded schedules of repaired findings (findings/<F>/run.sh, next to the engine's
// parent directory) against the tree under check: a schedule that fails again is a concrete failing history.
func scheduleReplay(e *Engine, ids []string) (bool, string) {
	exe, err := os.Executable()
	if err != nil {
		return false, ""
	}
	root := filepath.Dir(filepath.Dir(exe))
	detail := ""
	found := false
	for _, id := range ids {
		script := filepath.Join(root, "findings", id, "run.sh")
		if _, err := os.Stat(script); err != nil {
			continue
		}
		cmd := exec.Command(script, e.repo)
		out, _ := cmd.CombinedOutput()
		txt := string(out)
		if strings.Contains(txt, id+": ") && strings.Contains(txt, "--- FAIL") {
			found = true
			detail += "recorded schedule " + id + " fails on this tree (" + script + "):\n" + txt + "\n"
		} else {
			detail += "recorded schedule " + id + " does not fail on this tree\n"
		}
	}
	return found, detail
}
