package main

// Assumed contracts of external functions. Every stub used during a run is
// listed in the evidence under "assumed external contracts".

import (
	"fmt"
	"go/types"
	"strings"

	"golang.org/x/tools/go/ssa"
)

type stubFn func(fr *Frame, in ssa.Instruction, f *ssa.Function, cc *ssa.CallCommon, args []Term) []Term

func stubFor(f *ssa.Function) stubFn {
	name := f.String()
	if strings.HasPrefix(name, "sync/atomic.") {
		return stubAtomic
	}
	if s, ok := stubs[name]; ok {
		return s
	}
	return nil
}

func used(fr *Frame, f *ssa.Function, what string) {
	fr.x.externs[f.String()+": "+what] = true
}

func noop(what string) stubFn {
	return func(fr *Frame, in ssa.Instruction, f *ssa.Function, cc *ssa.CallCommon, args []Term) []Term {
		used(fr, f, what)
		return fr.freshResults(f.Signature)
	}
}

func nonNilResult(what string) stubFn {
	return func(fr *Frame, in ssa.Instruction, f *ssa.Function, cc *ssa.CallCommon, args []Term) []Term {
		used(fr, f, what)
		res := fr.freshResults(f.Signature)
		for i, r := range res {
			if sortOf(f.Signature.Results().At(i).Type()) == "Int" {
				fr.c().assume(lt("0", r))
			}
		}
		return res
	}
}

var stubs map[string]stubFn

func init() {
	stubs = map[string]stubFn{
		"(*sync.Mutex).Lock":                             noop("mutex: no effect on verified state (mutual exclusion trusted)"),
		"(*sync.Mutex).Unlock":                           noop("mutex: no effect on verified state"),
		"(*sync.RWMutex).Lock":                           noop("mutex"),
		"(*sync.RWMutex).Unlock":                         noop("mutex"),
		"(*sync.RWMutex).RLock":                          noop("mutex"),
		"(*sync.RWMutex).RUnlock":                        noop("mutex"),
		"(*sync.WaitGroup).Add":                          noop("waitgroup"),
		"(*sync.WaitGroup).Done":                         noop("waitgroup"),
		"(*sync.WaitGroup).Wait":                         noop("waitgroup: returns"),
		"runtime.Gosched":                                noop("yield"),
		"runtime.KeepAlive":                              noop("keepalive"),
		"fmt.Errorf":                                     nonNilResult("returns a non-nil error, no effect"),
		"errors.New":                                     nonNilResult("returns a non-nil error, no effect"),
		"fmt.Sprintf":                                    noop("pure"),
		"fmt.Println":                                    noop("no effect on verified state"),
		"strconv.Itoa":                                   noop("pure"),
		"strings.Contains":                               noop("pure"),
		"time.Now":                                       noop("pure"),
		"time.Until":                                     noop("pure"),
		"(time.Time).IsZero":                             noop("pure"),
		"(time.Time).Sub":                                noop("pure"),
		"(time.Duration).Seconds":                        noop("pure"),
		"time.NewTimer":                                  nonNilResult("returns a non-nil timer"),
		"(*time.Timer).Stop":                             noop("timer"),
		"(*time.Timer).Reset":                            noop("timer"),
		"(*sync.Pool).Get":                               stubPoolGet,
		"(*sync.Pool).Put":                               noop("pool put: object must not be used afterwards (not checked)"),
		"(*sync.Once).Do":                                stubOnceDo,
		"(encoding/binary.bigEndian).Uint16":             stubBE(2, false),
		"(encoding/binary.bigEndian).Uint32":             stubBE(4, false),
		"(encoding/binary.bigEndian).Uint64":             stubBE(8, false),
		"(encoding/binary.bigEndian).PutUint16":          stubBE(2, true),
		"(encoding/binary.bigEndian).PutUint32":          stubBE(4, true),
		"(encoding/binary.bigEndian).PutUint64":          stubBE(8, true),
		"golang.org/x/sys/unix.Read":                     stubRead,
		"golang.org/x/sys/unix.Write":                    stubWrite,
		"golang.org/x/sys/unix.Syscall":                  stubSyscall,
		"golang.org/x/sys/unix.RawSyscall":               stubSyscall,
		"golang.org/x/sys/unix.Mmap":                     stubMmap,
		"github.com/bytedance/gopkg/lang/dirtmake.Bytes": stubDirtmake,
		"github.com/bytedance/gopkg/util/gopool.Go":      stubSpawn,
		"time.AfterFunc":                                 stubSpawn,
		"sort.Sort":                                      stubSort,
		"golang.org/x/sys/unix.CmsgSpace":                stubSmallNonNeg,
	}
}

func stubSpawn(fr *Frame, in ssa.Instruction, f *ssa.Function, cc *ssa.CallCommon, args []Term) []Term {
	used(fr, f, "spawns a goroutine: its effects are outside the sequential contract")
	fr.c().note("goroutine spawn (" + f.Name() + ") abstracted in " + fr.fn.Name())
	return fr.freshResults(f.Signature)
}

func stubSort(fr *Frame, in ssa.Instruction, f *ssa.Function, cc *ssa.CallCommon, args []Term) []Term {
	used(fr, f, "permutes the elements of its argument (contents havocked)")
	c := fr.c()
	for _, comp := range memAll {
		fr.cur.set(comp, c.fresh("hv."+comp, compSorts[comp]))
	}
	return nil
}

func stubOnceDo(fr *Frame, in ssa.Instruction, f *ssa.Function, cc *ssa.CallCommon, args []Term) []Term {
	used(fr, f, "runs the closure at most once")
	if mc, ok := cc.Args[1].(*ssa.MakeClosure); ok {
		if cf, ok := mc.Fn.(*ssa.Function); ok {
			return fr.callAbstract(in, cf, f.Signature, "sync.Once closure")
		}
	}
	fr.cur = fr.cur.clone()
	fr.cur.havocAll(fmt.Sprintf("once%d", fr.c().n))
	return nil
}

func stubPoolGet(fr *Frame, in ssa.Instruction, f *ssa.Function, cc *ssa.CallCommon, args []Term) []Term {
	c := fr.c()
	// which pool?
	if ld, ok := cc.Args[0].(*ssa.UnOp); ok {
		if g, ok := ld.X.(*ssa.Global); ok && g.Name() == "bufferSlicePool" {
			used(fr, f, "bufferSlicePool.Get returns a bufferSlice with every field zero that nothing else references (pool invariant: the only Put site zeroes all fields; New returns a zero value; use-after-Put is not checked)")
			o := fr.x.e.tp.Scope().Lookup("bufferSlice")
			ref := fr.newRef("pooled")
			fr.zeroStruct(o.Type(), baseInfo{"", ref, nil})
			return []Term{fr.boxOf(types.NewPointer(o.Type()), ref)}
		}
	}
	used(fr, f, "returns some non-nil object")
	r := c.fresh("pooled", "Int")
	c.assume(lt("0", r))
	return []Term{r}
}

func stubBE(w int, put bool) stubFn {
	return func(fr *Frame, in ssa.Instruction, f *ssa.Function, cc *ssa.CallCommon, args []Term) []Term {
		c := fr.c()
		used(fr, f, "exact big-endian semantics, panics unless len(b) >= width")
		b := args[1]
		fr.oblige("index", fmt.Sprintf("binary.BigEndian.%s needs len(b) >= %d", f.Name(), w), in, le(num(int64(w)), app("s-len", b)))
		m := fr.cur.get("M")
		region := app("select", m, app("s-reg", b))
		off := app("s-off", b)
		if !put {
			fr.byteFacts(region, off, w)
			return []Term{c.define("be", "Int", app(fmt.Sprintf("be%d", w), region, off))}
		}
		v := args[2]
		if w > 1 {
			c.fact(app(fmt.Sprintf("bytes%d", w), v))
		}
		fr.cur.set("M", c.define("st.M", compSorts["M"], app("store", m, app("s-reg", b), app(fmt.Sprintf("bewr%d", w), region, off, v))))
		return nil
	}
}

func havocRange(fr *Frame, reg, lo, hi Term) {
	c := fr.c()
	fr.checkLoopFrameRange("M", reg, lo, hi, fr.curInstr)
	m := fr.cur.get("M")
	old := app("select", m, reg)
	na := c.fresh("hv.M", "(Array Int Int)")
	c.assumeRaw(fmt.Sprintf("(assert (forall ((i Int)) (! (and (<= 0 (select %s i) 255) (=> (or (< i %s) (>= i %s)) (= (select %s i) (select %s i)))) :pattern ((select %s i)))))", na, lo, hi, na, old, na))
	fr.cur.set("M", c.define("st.M", compSorts["M"], app("store", m, reg, na)))
}

func stubRead(fr *Frame, in ssa.Instruction, f *ssa.Function, cc *ssa.CallCommon, args []Term) []Term {
	c := fr.c()
	used(fr, f, "err == nil ==> 0 <= n <= len(p); err != nil ==> n == -1; writes only p[0:len(p))")
	p := args[1]
	havocRange(fr, app("s-reg", p), app("s-off", p), add(app("s-off", p), app("s-len", p)))
	n := c.fresh("n", "Int")
	err := c.fresh("err", "Int")
	c.assume(and(le("0", err), ite(eq(err, "0"), and(le("0", n), le(n, app("s-len", p))), eq(n, "(- 1)"))))
	return []Term{n, err}
}

func stubWrite(fr *Frame, in ssa.Instruction, f *ssa.Function, cc *ssa.CallCommon, args []Term) []Term {
	c := fr.c()
	used(fr, f, "err == nil ==> 0 <= n <= len(p); err != nil ==> n == -1")
	p := args[1]
	n := c.fresh("n", "Int")
	err := c.fresh("err", "Int")
	c.assume(and(le("0", err), ite(eq(err, "0"), and(le("0", n), le(n, app("s-len", p))), eq(n, "(- 1)"))))
	return []Term{n, err}
}

// Syscall(trap, a1, a2, a3) (r1, r2 uintptr, err Errno): for read/write the result is at most the length a3
func stubSyscall(fr *Frame, in ssa.Instruction, f *ssa.Function, cc *ssa.CallCommon, args []Term) []Term {
	c := fr.c()
	used(fr, f, "SYS_READ/SYS_WRITE: err == 0 ==> 0 <= r1 <= a3 (requested length); SYS_WRITEV: r1 arbitrary; memory written by SYS_READ is havocked")
	r1 := fr.freshVal("r1", types.Typ[types.Uintptr])
	r2 := fr.freshVal("r2", types.Typ[types.Uintptr])
	err := fr.freshVal("errno", types.Typ[types.Uintptr])
	trap, isK := constIntOf(cc.Args[0])
	if isK && (trap == 0 || trap == 1) { // SYS_READ=0, SYS_WRITE=1 on linux/amd64
		c.assume(imp(eq(err, "0"), le(r1, args[3])))
	}
	if !isK || trap == 0 {
		fr.loopFrameWholeComp("M", in, "read syscall")
		// the kernel writes into the buffer: all byte memory reachable may change
		fr.cur.set("M", c.fresh("hv.M", compSorts["M"]))
	}
	return []Term{r1, r2, err}
}

func stubMmap(fr *Frame, in ssa.Instruction, f *ssa.Function, cc *ssa.CallCommon, args []Term) []Term {
	c := fr.c()
	used(fr, f, "err == nil ==> returns a fresh slice with len == cap == length (contents arbitrary); err != nil ==> nil slice")
	reg := fr.newRef("mmap")
	err := c.fresh("err", "Int")
	c.assume(le("0", err))
	fr.cur.set("M", c.define("st.M", compSorts["M"], app("store", fr.cur.get("M"), reg, c.fresh("mapped", "(Array Int Int)"))))
	s := c.define("mmap", "Slice", ite(eq(err, "0"), app("mk-slice", reg, "0", args[2], args[2]), "nilslice"))
	c.assume(imp(eq(err, "0"), le("0", args[2])))
	return []Term{s, err}
}

func stubDirtmake(fr *Frame, in ssa.Instruction, f *ssa.Function, cc *ssa.CallCommon, args []Term) []Term {
	c := fr.c()
	used(fr, f, "behaves as make([]byte, len, cap) with arbitrary contents")
	fr.oblige("make", "dirtmake.Bytes: 0 <= len <= cap", in, and(le("0", args[0]), le(args[0], args[1])))
	reg := fr.newRef("dirt")
	fr.cur.set("M", c.define("st.M", compSorts["M"], app("store", fr.cur.get("M"), reg, c.fresh("dirt", "(Array Int Int)"))))
	return []Term{c.define("dirt", "Slice", app("mk-slice", reg, "0", args[0], args[1]))}
}

// sync/atomic on int32/int64/uint32/uint64 (sequentially consistent single step)
func stubAtomic(fr *Frame, in ssa.Instruction, f *ssa.Function, cc *ssa.CallCommon, args []Term) []Term {
	c := fr.c()
	name := f.Name()
	used(fr, f, "indivisible, sequentially consistent")
	if strings.HasSuffix(name, "Pointer") || strings.HasSuffix(name, "Uintptr") {
		c.note("atomic pointer operation abstracted in " + fr.fn.Name())
		if !strings.HasPrefix(name, "Load") {
			a := fr.addrOfSafe(cc.Args[0])
			if a != nil && a.kind == aField {
				fr.storeComp(*a, c.fresh("atomicptr", elemOfArraySort(compSorts[a.comp])))
			}
		}
		return fr.freshResults(f.Signature)
	}
	a := fr.addrOf(cc.Args[0])
	fr.nilCheckAddr(cc.Args[0], in)
	el := ptrElem(cc.Args[0].Type())
	a.elem = el
	switch {
	case strings.HasPrefix(name, "Load"):
		return []Term{fr.load(a, in)}
	case strings.HasPrefix(name, "Store"):
		fr.store(a, args[1], el, in)
		return nil
	case strings.HasPrefix(name, "Add"):
		old := fr.load(a, in)
		nv := c.define("atomicadd", "Int", wrapInt(el, app("+", old, args[1])))
		fr.store(a, nv, el, in)
		return []Term{nv}
	case strings.HasPrefix(name, "Swap"):
		old := fr.load(a, in)
		fr.store(a, args[1], el, in)
		return []Term{old}
	case strings.HasPrefix(name, "CompareAndSwap"):
		old := fr.load(a, in)
		ok := c.define("cas", "Bool", eq(old, args[1]))
		fr.store(a, c.define("casv", "Int", ite(ok, args[2], old)), el, in)
		return []Term{ok}
	}
	c.note("atomic operation " + name + " abstracted")
	return fr.freshResults(f.Signature)
}

func stubSmallNonNeg(fr *Frame, in ssa.Instruction, f *ssa.Function, cc *ssa.CallCommon, args []Term) []Term {
	used(fr, f, "returns a small non-negative int (0 <= r <= 2^20)")
	r := fr.c().fresh("small", "Int")
	fr.c().assume(and(le("0", r), le(r, "1048576")))
	return []Term{r}
}
