package main

import (
	"os"
	"fmt"
	"go/token"
	"go/types"
	"sort"
	"strings"

	"golang.org/x/tools/go/ssa"
)

var execSeq int

func (x *Exec) newFrame(fn *ssa.Function, parent *Frame) *Frame {
	if x.id == 0 {
		execSeq++
		x.id = execSeq
	}
	x.frameSeq++
	fr := &Frame{x: x, fn: fn, id: x.frameSeq, env: map[ssa.Value]Term{}, tuples: map[ssa.Value][]Term{},
		allocRef: map[*ssa.Alloc]Term{}, params: map[string]sval{}}
	if parent != nil {
		fr.rgTop = parent.rgOwner()
		fr.depth = parent.depth + 1
		fr.stack = append(append([]*ssa.Function{}, parent.stack...), fn)
	} else {
		fr.stack = []*ssa.Function{fn}
	}
	return fr
}

func pureIfaceMethod(name string) bool {
	switch name {
	case "Error", "String", "LocalAddr", "RemoteAddr", "Network", "IsDir", "Size", "Name", "Mode", "ModTime":
		return true
	}
	return false
}

func (fr *Frame) call(in ssa.Instruction, cc *ssa.CallCommon) []Term {
	c := fr.c()
	e := fr.x.e
	sig := cc.Signature()
	if cc.IsInvoke() {
		recv := fr.val(cc.Value)
		fr.oblige("nil", "method "+cc.Method.Name()+" called on non-nil interface", in, not(eq(recv, "0")))
		// unique in-package implementation of an in-package interface with unexported methods
		if impl := e.uniqueImpl(cc); impl != nil && !fr.x.opaque(cc.Method.Name()) {
			// receiver: unbox the interface value to the concrete pointer
			rt := impl.Signature.Recv().Type()
			args := []Term{fr.unboxTo(rt, recv)}
			for _, a := range cc.Args {
				args = append(args, fr.val(a))
			}
			return fr.callStatic(in, impl, args)
		}
		if !pureIfaceMethod(cc.Method.Name()) {
			c.note("interface method call havocs the heap: " + cc.Method.Name() + " in " + fr.fn.Name())
			fr.cur = fr.cur.clone()
			fr.cur.havocAll(fmt.Sprintf("iv%d", c.n))
		}
		res := fr.freshResults(sig)
		fr.errConvention(sig, res)
		return res
	}
	switch cv := cc.Value.(type) {
	case *ssa.Builtin:
		return fr.builtin(in, cv, cc)
	case *ssa.Function:
		var args []Term
		for _, a := range cc.Args {
			args = append(args, fr.val(a))
		}
		return fr.callFunc(in, cv, cc, args)
	case *ssa.MakeClosure:
		if f, ok := cv.Fn.(*ssa.Function); ok {
			return fr.callAbstract(in, f, sig, "closure call")
		}
	}
	// dynamic call through a function value: immutable table dispatch?
	if cands, idx := fr.tableCandidates(cc.Value); cands != nil {
		return fr.dispatch(in, cc, cands, idx)
	}
	f := fr.val(cc.Value)
	fr.oblige("nil", "call of non-nil function value", in, not(eq(f, "0")))
	c.note("dynamic call havocs the heap in " + fr.fn.Name())
	fr.cur = fr.cur.clone()
	fr.cur.havocAll(fmt.Sprintf("dyn%d", c.n))
	return fr.freshResults(sig)
}

func (fr *Frame) unboxTo(t types.Type, iface Term) Term {
	c := fr.c()
	srt := sortOf(t)
	tn := sym("box." + typeName(t, fr.x.e.tp) + "." + strings.ReplaceAll(t.String(), " ", ""))
	un := sym("un" + strings.Trim(tn, "|"))
	if _, ok := c.declared[tn]; !ok {
		c.items = append(c.items, fmt.Sprintf("(declare-fun %s (%s) Int)", tn, srt))
		c.items = append(c.items, fmt.Sprintf("(declare-fun %s (Int) %s)", un, srt))
		c.declared[tn] = "fun"
	}
	v := c.define("unbox", srt, app(un, iface))
	if srt == "Int" {
		c.fact(lt("0", v)) // dynamic type is the unique implementation: pointer receiver is non-nil by construction
	}
	return v
}

func (fr *Frame) boxOf(t types.Type, x Term) Term {
	c := fr.c()
	srt := sortOf(t)
	tn := sym("box." + typeName(t, fr.x.e.tp) + "." + strings.ReplaceAll(t.String(), " ", ""))
	un := sym("un" + strings.Trim(tn, "|"))
	if _, ok := c.declared[tn]; !ok {
		c.items = append(c.items, fmt.Sprintf("(declare-fun %s (%s) Int)", tn, srt))
		c.items = append(c.items, fmt.Sprintf("(declare-fun %s (Int) %s)", un, srt))
		c.declared[tn] = "fun"
	}
	b := app(tn, x)
	c.fact(and(lt("0", b), eq(app(un, b), x)))
	return b
}

// uniqueImpl: the interface is declared in the package, has an unexported method (so it cannot
// be implemented outside) and exactly one package type implements it.
func (e *Engine) uniqueImpl(cc *ssa.CallCommon) *ssa.Function {
	named, ok := cc.Value.Type().(*types.Named)
	if !ok || named.Obj().Pkg() != e.tp {
		return nil
	}
	it := named.Underlying().(*types.Interface)
	unexported := false
	for i := 0; i < it.NumMethods(); i++ {
		if !it.Method(i).Exported() {
			unexported = true
		}
	}
	if !unexported {
		return nil
	}
	var impl *ssa.Function
	n := 0
	for _, m := range e.pkg.Members {
		t, ok := m.(*ssa.Type)
		if !ok {
			continue
		}
		for _, ty := range []types.Type{t.Type(), types.NewPointer(t.Type())} {
			if _, isI := t.Type().Underlying().(*types.Interface); isI {
				continue
			}
			if types.Implements(ty, it) {
				sel := e.prog.MethodSets.MethodSet(ty).Lookup(e.tp, cc.Method.Name())
				if sel != nil {
					if f := e.prog.MethodValue(sel); f != nil {
						impl = f
						n++
					}
				}
				break
			}
		}
	}
	if n == 1 && impl.Blocks != nil {
		return impl
	}
	return nil
}

func (fr *Frame) freshResults(sig *types.Signature) []Term {
	var res []Term
	for i := 0; i < sig.Results().Len(); i++ {
		t := sig.Results().At(i).Type()
		v := fr.freshVal("res", t)
		fr.loadFacts(t, v)
		res = append(res, v)
	}
	return res
}

func (fr *Frame) callFunc(in ssa.Instruction, f *ssa.Function, cc *ssa.CallCommon, args []Term) []Term {
	if st := stubFor(f); st != nil {
		return st(fr, in, f, cc, args)
	}
	return fr.callStatic(in, f, args)
}

func (fr *Frame) callStatic(in ssa.Instruction, f *ssa.Function, args []Term) []Term {
	e := fr.x.e
	c := fr.c()
	key := f.RelString(e.tp)
	inPkg := e.funcs[key] == f
	if !inPkg {
		fr.x.externs[f.String()] = true
		res := fr.freshResults(f.Signature)
		fr.errConvention(f.Signature, res)
		return res
	}
	// package-local helper types that are pure by declaration (logger)
	if recv := f.Signature.Recv(); recv != nil {
		if tn := typeName(recv.Type(), e.tp); tn == "logger" {
			fr.x.funcsAbstracted["(*logger).* [trusted: logging has no effect on verified state]"] = true
			return fr.freshResults(f.Signature)
		}
	}
	if ct := e.cf.Funcs[key]; ct != nil && !ct.Lemma && !fr.rgInlined(key) {
		if len(fr.rgClauses("rely")) > 0 {
			// in a rely/guarantee run a callee used through its (sequential) contract executes as ONE atomic step:
			// that is an assumption unless the callee touches no shared state; it is listed with the evidence
			// (use `inline f` to have its shared accesses interfered with individually)
			fr.x.externs[fmt.Sprintf("ATOMIC CALL in the rely/guarantee run of %s: %s is used through its sequential contract, i.e. as one atomic step", fr.rgOwner().fn.Name(), key)] = true
		}
		return fr.callContract(in, f, ct, args)
	}
	// inline if affordable
	recursive := false
	for _, s := range fr.stack {
		if s == f {
			recursive = true
		}
	}
	size := 0
	for _, b := range f.Blocks {
		size += len(b.Instrs)
	}
	if !recursive && fr.depth < 6 && fr.x.budget-size > 0 {
		fr.x.budget -= size
		fr.x.funcsInlined[key] = true
		return fr.inline(in, f, args)
	}
	_ = c
	return fr.callAbstract(in, f, f.Signature, "inline budget exhausted or recursion")
}

func (fr *Frame) callAbstract(in ssa.Instruction, f *ssa.Function, sig *types.Signature, why string) []Term {
	c := fr.c()
	e := fr.x.e
	key := f.RelString(e.tp)
	fr.x.funcsAbstracted[key+" ["+why+"]"] = true
	ms := e.modsets[f]
	fr.cur = fr.cur.clone()
	if ms == nil || ms.all {
		fr.cur.havocAll(fmt.Sprintf("abs%d", c.n))
	} else {
		var names []string
		for n := range ms.comps {
			names = append(names, n)
		}
		sort.Strings(names)
		for _, n := range names {
			if _, ok := compSorts[n]; ok {
				fr.cur.set(n, c.fresh("hv."+shortName(n), compSorts[n]))
			}
		}
		w := fr.cur.get("W")
		nw := c.fresh("W", "Int")
		c.assume(le(w, nw))
		fr.cur.set("W", nw)
		if c.onHavoc != nil {
			c.onHavoc(fr.cur)
		}
	}
	return fr.freshResults(sig)
}

func (fr *Frame) inline(in ssa.Instruction, f *ssa.Function, args []Term) []Term {
	nf := fr.x.newFrame(f, fr)
	nf.path = strings.TrimSpace(fr.path + " > " + f.Name() + "@" + fr.x.e.pos(in.Pos()))
	for i, p := range f.Params {
		if i < len(args) {
			nf.env[p] = args[i]
		}
	}
	for _, fv := range f.FreeVars {
		nf.env[fv] = fr.freshVal("fv", fv.Type())
	}
	nf.entry = fr.cur
	nf.run(fr.cur.clone())
	return fr.finishInline(nf, f.Signature)
}

func (fr *Frame) finishInline(nf *Frame, sig *types.Signature) []Term {
	c := fr.c()
	if len(nf.rets) == 0 {
		fr.dead = true
		return fr.freshResults(sig)
	}
	if len(nf.rets) == 1 {
		fr.cur = nf.rets[0].st
		return nf.rets[0].vals
	}
	var ins []parentRef
	for _, r := range nf.rets {
		ins = append(ins, parentRef{r.st.reach, r.st})
	}
	fr.cur = joinStates(c, ins, "ret."+nf.fn.Name())
	n := sig.Results().Len()
	res := make([]Term, n)
	for i := 0; i < n; i++ {
		t := nf.rets[len(nf.rets)-1].vals[i]
		for k := len(nf.rets) - 2; k >= 0; k-- {
			t = ite(nf.rets[k].st.reach, nf.rets[k].vals[i], t)
		}
		res[i] = c.define("ret", sortOf(sig.Results().At(i).Type()), t)
	}
	return res
}

// ---------- modular use of a contract ----------

func (fr *Frame) calleeVars(f *ssa.Function, args []Term) map[string]sval {
	vars := map[string]sval{}
	for i, p := range f.Params {
		if i < len(args) {
			v := sval{t: args[i], typ: p.Type(), sort: sortOf(p.Type())}
			vars[p.Name()] = v
			vars[p.Name()+"0"] = v
		}
	}
	return vars
}

func (fr *Frame) callContract(in ssa.Instruction, f *ssa.Function, ct *Contract, args []Term) []Term {
	c := fr.c()
	key := f.RelString(fr.x.e.tp)
	fr.x.funcsUsedModular[key] = true
	vars := fr.calleeVars(f, args)
	callee := fr.x.newFrame(f, fr) // only a naming scope for spec evaluation
	callee.params = vars
	callee.cur = fr.cur
	pre := fr.cur
	// receiver non-nil is part of every contract unless declared nilable
	if f.Signature.Recv() != nil && !ct.Nilable && sortOf(f.Params[0].Type()) == "Int" {
		fr.oblige("pre", "receiver of "+key+" is non-nil", in, not(eq(args[0], "0")))
	}
	for _, cl := range ct.Clauses {
		if cl.Kind != "requires" && cl.Kind != "preserves" || !fr.x.active(cl) {
			continue
		}
		for _, cj := range splitConj(cl.Expr) {
			se := callee.specEnvFor(pre, nil, vars, false)
			saved := callee.cur
			callee.cur = pre
			func() {
				defer func() { callee.cur = saved }()
				callee.proveSpecAt(fr, "pre", fmt.Sprintf("precondition of %s: %s", key, cj.String()), cl, cj, se, fr.posOf(in))
			}()
		}
	}
	// havoc what the callee may modify
	fr.cur = pre.clone()
	post := fr.cur
	callee.cur = post
	callee.frameCaller, callee.frameInstr = fr, in
	callee.havocModifies(ct, pre, post, vars)
	res := fr.freshResults(f.Signature)
	rv := map[string]sval{}
	for k, v := range vars {
		rv[k] = v
	}
	for i, r := range res {
		t := f.Signature.Results().At(i).Type()
		rv[fmt.Sprintf("r%d", i)] = sval{t: r, typ: t, sort: sortOf(t)}
		if n := f.Signature.Results().At(i).Name(); n != "" && n != "_" {
			rv[n] = rv[fmt.Sprintf("r%d", i)]
		}
	}
	if len(res) == 1 {
		rv["result"] = rv["r0"]
	}
	for _, cl := range ct.Clauses {
		if cl.Kind != "ensures" && cl.Kind != "preserves" || !fr.x.active(cl) {
			continue
		}
		se := callee.specEnvFor(post, pre, rv, false)
		t := se.eval(cl.Expr).t
		c.assume(imp(post.reach, t))
	}
	fr.cur = post
	return res
}

// proveSpecAt proves a callee-side spec expression as an obligation of the caller.
func (callee *Frame) proveSpecAt(caller *Frame, kind, desc string, cl *Clause, e *Spec, se *specEnv, pos string) {
	c := callee.c()
	n0 := len(c.obls)
	callee.proveSpecEnv(kind, desc, cl, e, se)
	for _, o := range c.obls[n0:] {
		o.Pos = pos + " (" + o.Pos + ")"
		o.Props = nil // a precondition violated at a call site belongs to every property of the caller
	}
}

// havocModifies applies a contract's modifies clauses to the post state.
func (callee *Frame) havocModifies(ct *Contract, pre, post *State, vars map[string]sval) {
	c := callee.c()
	if !hasModifies(ct) {
		// no modifies clause: conservatively use the inferred mod set
		ms := callee.x.e.modsets[callee.fn]
		if ms == nil || ms.all {
			post.havocAll(fmt.Sprintf("cm%d", c.n))
			return
		}
		for _, n := range sortedKeys(ms.comps) {
			if _, ok := compSorts[n]; ok {
				if callee.frameCaller != nil && (n == "M" || n == "MS" || n == "MR" || n == "MB" || n == "MP") {
					callee.frameCaller.loopFrameWholeComp(n, callee.frameInstr, "callee "+callee.fn.Name()+" (no modifies clause)")
				}
				post.set(n, c.fresh("hv."+shortName(n), compSorts[n]))
			}
		}
		w := post.get("W")
		nw := c.fresh("W", "Int")
		c.assume(le(w, nw))
		post.set("W", nw)
		if c.onHavoc != nil {
			c.onHavoc(post)
		}
		return
	}
	// allocation may always happen
	w := post.get("W")
	nw := c.fresh("W", "Int")
	c.assume(le(w, nw))
	post.set("W", nw)
	for _, cl := range ct.Clauses {
		if cl.Kind != "modifies" {
			continue
		}
		for _, loc := range cl.Locs {
			callee.havocLoc(loc, pre, post, vars)
		}
	}
}

type locInfo struct {
	kind string // field, word, range, comp, heap, region
	comp string
	ref  Term
	idx  []Term
	reg  Term
	lo   Term
	hi   Term
	elem types.Type
}

func (callee *Frame) evalLoc(loc *Spec, pre *State, vars map[string]sval) locInfo {
	se := callee.specEnvFor(pre, nil, vars, false)
	if loc.Op == "ident" && (loc.Name == "heap" || loc.Name == "everything") {
		return locInfo{kind: "heap"}
	}
	if loc.Op == "call" && loc.Name == "region" {
		s := se.eval(loc.Args[0])
		return locInfo{kind: "region", reg: app("s-reg", s.t)}
	}
	if loc.Op == "call" && loc.Name == "all" {
		// all(Type.field): the whole component
		a := loc.Args[0]
		if a.Op == "sel" && a.Args[0].Op == "ident" {
			return locInfo{kind: "comp", comp: "F." + a.Args[0].Name + "." + a.Name}
		}
		if a.Op == "ident" {
			return locInfo{kind: "comp", comp: a.Name}
		}
	}
	if loc.Op == "slice" {
		s := se.eval(loc.Args[0])
		lo, hi := Term("0"), app("s-len", s.t)
		if loc.Args[1] != nil {
			lo = se.eval(loc.Args[1]).t
		}
		if loc.Args[2] != nil {
			hi = se.eval(loc.Args[2]).t
		}
		comp := "M"
		if s.typ != nil {
			if st, ok := s.typ.Underlying().(*types.Slice); ok {
				comp = memComp(st.Elem())
			}
		}
		return locInfo{kind: "range", comp: comp, reg: app("s-reg", s.t), lo: add(app("s-off", s.t), lo), hi: add(app("s-off", s.t), hi)}
	}
	v := se.eval(loc)
	if v.addr == nil {
		specFail("modifies: %s is not a location", loc)
	}
	switch v.addr.kind {
	case aField:
		return locInfo{kind: "field", comp: v.addr.comp, ref: v.addr.ref, idx: v.addr.idx, elem: v.addr.elem}
	case aPtr:
		w := widthOf(v.addr.elem)
		return locInfo{kind: "range", comp: "M", reg: app("p-reg", v.addr.ptr), lo: app("p-off", v.addr.ptr), hi: add(app("p-off", v.addr.ptr), num(int64(w))), elem: v.addr.elem}
	case aMem:
		return locInfo{kind: "range", comp: memComp(v.addr.elem), reg: v.addr.reg, lo: v.addr.off, hi: add(v.addr.off, "1"), elem: v.addr.elem}
	case aCell:
		return locInfo{kind: "comp", comp: v.addr.comp}
	}
	specFail("modifies: unsupported location %s", loc)
	return locInfo{}
}

func (callee *Frame) havocLoc(loc *Spec, pre, post *State, vars map[string]sval) {
	c := callee.c()
	li := callee.evalLoc(loc, pre, vars)
	switch li.kind {
	case "heap":
		post.havocAll(fmt.Sprintf("mh%d", c.n))
	case "comp":
		if _, ok := compSorts[li.comp]; ok {
			post.set(li.comp, c.fresh("hv."+shortName(li.comp), compSorts[li.comp]))
		}
	case "field":
		arr := post.get(li.comp)
		es := compSorts[li.comp]
		// element sort = strip one "(Array Int " level
		inner := elemOfArraySort(es)
		nv := c.fresh("hv."+shortName(li.comp), inner)
		if len(li.idx) == 0 && li.elem != nil {
			callee.typeFacts(li.elem, nv)
		}
		post.set(li.comp, c.define("hv", es, app("store", arr, li.ref, nv)))
	case "region":
		if callee.frameCaller != nil {
			for _, comp := range memAll {
				callee.frameCaller.loopFrameWholeComp(comp, callee.frameInstr, "callee "+callee.fn.Name())
			}
		}
		for _, comp := range memAll {
			m := post.get(comp)
			na := c.fresh("hv."+comp, elemOfArraySort(compSorts[comp]))
			post.set(comp, c.define("hv", compSorts[comp], app("store", m, li.reg, na)))
		}
	case "range":
		if callee.frameCaller != nil {
			callee.frameCaller.checkLoopFrameRange(li.comp, li.reg, li.lo, li.hi, callee.frameInstr)
		}
		w := 0
		if li.elem != nil {
			w = widthOf(li.elem)
		}
		if li.comp == "M" && w > 0 && w <= 8 && os.Getenv("GOVC_WORDSTORE") != "" {
			// a single word: fresh bytes stored one by one (no quantified frame needed)
			m := post.get("M")
			arr := app("select", m, li.reg)
			for i := 0; i < w; i++ {
				b := c.fresh("hvb", "Int")
				c.fact(app("<=", "0", b, "255"))
				arr = app("store", arr, add(li.lo, num(int64(i))), b)
			}
			post.set("M", c.define("hv", compSorts["M"], app("store", m, li.reg, arr)))
			return
		}
		m := post.get(li.comp)
		old := app("select", m, li.reg)
		es := elemOfArraySort(compSorts[li.comp])
		na := c.fresh("hv."+li.comp, es)
		c.assumeRaw(fmt.Sprintf("(assert (forall ((i Int)) (! (=> (or (< i %s) (>= i %s)) (= (select %s i) (select %s i))) :pattern ((select %s i)))))", li.lo, li.hi, na, old, na))
		if li.comp == "M" {
			// bytes stay bytes
		}
		post.set(li.comp, c.define("hv", compSorts[li.comp], app("store", m, li.reg, na)))
	}
}

// contractModComps: component names a contract's modifies clauses can touch (static approximation).
func contractModComps(x *Exec, ct *Contract, f *ssa.Function) []string {
	scratch := &Exec{e: x.e, c: newCtx("scratch"), top: f, funcsUsedModular: map[string]bool{}, funcsInlined: map[string]bool{}, funcsAbstracted: map[string]bool{}, externs: map[string]bool{}, lemmasUsed: map[string]bool{}}
	fr := scratch.newFrame(f, nil)
	st := newState(scratch.c, "0")
	fr.cur = st
	var args []Term
	for _, p := range f.Params {
		args = append(args, scratch.c.fresh("p", sortOf(p.Type())))
	}
	vars := fr.calleeVars(f, args)
	out := map[string]bool{"W": true}
	for _, cl := range ct.Clauses {
		if cl.Kind != "modifies" {
			continue
		}
		for _, loc := range cl.Locs {
			func() {
				defer func() {
					if r := recover(); r != nil {
						for _, k := range memAll {
							out[k] = true
						}
					}
				}()
				li := fr.evalLoc(loc, st, vars)
				switch li.kind {
				case "heap":
					out["*"] = true
				case "region":
					for _, k := range memAll {
						out[k] = true
					}
				default:
					out[li.comp] = true
				}
			}()
		}
	}
	return sortedKeys(out)
}

// ---------- dynamic dispatch through immutable tables ----------

type candidate struct {
	key int64
	fn  *ssa.Function
}

func (fr *Frame) tableCandidates(v ssa.Value) ([]candidate, Term) {
	e := fr.x.e
	switch x := v.(type) {
	case *ssa.UnOp:
		if x.Op != token.MUL {
			return nil, ""
		}
		if ia, ok := x.X.(*ssa.IndexAddr); ok {
			if ld, ok := ia.X.(*ssa.UnOp); ok {
				if g, ok := ld.X.(*ssa.Global); ok {
					if tab, ok := e.tables[g.Name()]; ok {
						return sortedCands(tab), fr.val(ia.Index)
					}
				}
			}
		}
		// load of a local cell holding the callee: look at the single store
		if a, ok := x.X.(*ssa.Alloc); ok {
			var val ssa.Value
			n := 0
			for _, r := range *a.Referrers() {
				if st, ok := r.(*ssa.Store); ok && st.Addr == a {
					val = st.Val
					n++
				}
			}
			if n == 1 {
				return fr.tableCandidates(val)
			}
		}
	case *ssa.Extract:
		if lk, ok := x.Tuple.(*ssa.Lookup); ok && x.Index == 0 {
			if ld, ok := lk.X.(*ssa.UnOp); ok {
				if g, ok := ld.X.(*ssa.Global); ok {
					if tab, ok := e.mapTables[g.Name()]; ok {
						return sortedCands(tab), fr.val(lk.Index)
					}
				}
			}
		}
	}
	return nil, ""
}

func sortedCands(tab map[int64]*ssa.Function) []candidate {
	var cs []candidate
	for k, f := range tab {
		cs = append(cs, candidate{k, f})
	}
	sort.Slice(cs, func(i, j int) bool { return cs[i].key < cs[j].key })
	return cs
}

func (fr *Frame) dispatch(in ssa.Instruction, cc *ssa.CallCommon, cands []candidate, idx Term) []Term {
	c := fr.c()
	base := fr.cur
	var guards []Term
	for _, cd := range cands {
		guards = append(guards, eq(idx, num(cd.key)))
	}
	fr.c().oblige("nil", "call through function table entry that is non-nil", fr.posOf(in), nil, base.reach, or(guards...))
	var args []Term
	for _, a := range cc.Args {
		args = append(args, fr.val(a))
	}
	type branch struct {
		st   *State
		vals []Term
	}
	var brs []branch
	for i, cd := range cands {
		st := base.clone()
		st.reach = c.define("reach.disp", "Bool", and(base.reach, guards[i]))
		fr.cur = st
		fr.dead = false
		vals := fr.callStatic(in, cd.fn, args)
		if fr.dead {
			fr.dead = false
			continue
		}
		brs = append(brs, branch{fr.cur, vals})
	}
	if len(brs) == 0 {
		fr.dead = true
		return fr.freshResults(cc.Signature())
	}
	var ins []parentRef
	for _, b := range brs {
		ins = append(ins, parentRef{b.st.reach, b.st})
	}
	fr.cur = joinStates(c, ins, "disp")
	n := cc.Signature().Results().Len()
	res := make([]Term, n)
	for i := 0; i < n; i++ {
		t := brs[len(brs)-1].vals[i]
		for k := len(brs) - 2; k >= 0; k-- {
			t = ite(brs[k].st.reach, brs[k].vals[i], t)
		}
		res[i] = c.define("dret", sortOf(cc.Signature().Results().At(i).Type()), t)
	}
	return res
}

// ---------- builtins ----------

func (fr *Frame) builtin(in ssa.Instruction, b *ssa.Builtin, cc *ssa.CallCommon) []Term {
	c := fr.c()
	switch b.Name() {
	case "len":
		x := fr.val(cc.Args[0])
		switch cc.Args[0].Type().Underlying().(type) {
		case *types.Slice, *types.Basic:
			return []Term{c.define("len", "Int", app("s-len", x))}
		case *types.Map, *types.Chan:
			v := c.fresh("len", "Int")
			c.assume(le("0", v))
			return []Term{v}
		}
		return []Term{fr.freshVal("len", types.Typ[types.Int])}
	case "cap":
		x := fr.val(cc.Args[0])
		if sortOf(cc.Args[0].Type()) == "Slice" {
			return []Term{c.define("cap", "Int", app("s-cap", x))}
		}
		v := c.fresh("cap", "Int")
		c.assume(le("0", v))
		return []Term{v}
	case "copy":
		dst, src := fr.val(cc.Args[0]), fr.val(cc.Args[1])
		n := c.define("ncopy", "Int", ite(le(app("s-len", dst), app("s-len", src)), app("s-len", dst), app("s-len", src)))
		el := types.Type(types.Typ[types.Byte])
		if st, ok := cc.Args[0].Type().Underlying().(*types.Slice); ok {
			el = st.Elem()
		}
		fr.copyRange(memComp(el), app("s-reg", dst), app("s-off", dst), app("s-reg", src), app("s-off", src), n)
		return []Term{n}
	case "append":
		return []Term{fr.appendBuiltin(in, cc)}
	case "delete":
		m := fr.val(cc.Args[0])
		mt := cc.Args[0].Type().Underlying().(*types.Map)
		if sortOf(mt.Key()) == "Int" && !isString(mt.Key()) {
			k := fr.val(cc.Args[1])
			ok := fr.cur.get("MAPOK")
			fr.cur.set("MAPOK", c.define("st.MAPOK", compSorts["MAPOK"], ite(eq(m, "0"), ok, app("store", ok, m, app("store", app("select", ok, m), k, "false")))))
		} else {
			c.note("delete on map with non-integer key abstracted")
		}
		return nil
	case "close":
		ch := fr.val(cc.Args[0])
		fr.oblige("nil", "close of non-nil channel", in, not(eq(ch, "0")))
		c.note("close(chan): double close not modelled in " + fr.fn.Name())
		return nil
	case "print", "println":
		return nil
	case "recover":
		return []Term{"0"}
	case "ssa:wrapnilchk":
		return []Term{fr.val(cc.Args[0])}
	case "min", "max":
		a, bb := fr.val(cc.Args[0]), fr.val(cc.Args[1])
		if b.Name() == "min" {
			return []Term{ite(le(a, bb), a, bb)}
		}
		return []Term{ite(le(a, bb), bb, a)}
	case "ssa:deferstack":
		return []Term{zeroOf(cc.Signature().Results().At(0).Type())}
	}
	c.note("builtin " + b.Name() + " abstracted")
	return fr.freshResults(cc.Signature())
}

// copyRange: region dreg[doff .. doff+n) := old sreg[soff .. soff+n)
func (fr *Frame) copyRange(comp string, dreg, doff, sreg, soff, n Term) {
	c := fr.c()
	fr.checkLoopFrameRange(comp, dreg, doff, add(doff, n), fr.curInstr)
	m := fr.cur.get(comp)
	es := elemOfArraySort(compSorts[comp])
	na := c.fresh("cp."+comp, es)
	oldD := app("select", m, dreg)
	oldS := app("select", m, sreg)
	c.assumeRaw(fmt.Sprintf("(assert (forall ((i Int)) (! (= (select %s i) (ite (and (<= %s i) (< i (+ %s %s))) (select %s (+ %s (- i %s))) (select %s i))) :pattern ((select %s i)))))",
		na, doff, doff, n, oldS, soff, doff, oldD, na))
	fr.cur.set(comp, c.define("st."+comp, compSorts[comp], ite(lt("0", n), app("store", m, dreg, na), m)))
}

func (fr *Frame) appendBuiltin(in ssa.Instruction, cc *ssa.CallCommon) Term {
	c := fr.c()
	s := fr.val(cc.Args[0])
	el := cc.Args[0].Type().Underlying().(*types.Slice).Elem()
	var n Term
	var src Term
	if len(cc.Args) > 1 {
		src = fr.val(cc.Args[1])
		n = app("s-len", src)
	} else {
		n = "0"
	}
	newLen := c.define("applen", "Int", add(app("s-len", s), n))
	fits := c.define("appfits", "Bool", le(newLen, app("s-cap", s)))
	freshReg := fr.newRef("appreg")
	newCap := c.fresh("appcap", "Int")
	c.assume(le(newLen, newCap))
	res := c.define("app", "Slice", ite(eq(n, "0"), s, ite(fits,
		app("mk-slice", app("s-reg", s), app("s-off", s), newLen, app("s-cap", s)),
		app("mk-slice", freshReg, "0", newLen, newCap))))
	if _, isStruct := el.Underlying().(*types.Struct); isStruct {
		// elements are addressed as objects elemref(region, index): copy field-wise for the appended element(s)
		fr.appendStructs(el, s, src, n, fits, freshReg)
		return res
	}
	comp := memComp(el)
	if src == "" {
		return res
	}
	// contents: in place -> copy into old region after len; realloc -> new region = old prefix ++ src
	fr.checkLoopFrameRange(comp, ite(fits, app("s-reg", s), freshReg), ite(fits, add(app("s-off", s), app("s-len", s)), "0"), ite(fits, add(app("s-off", s), newLen), newLen), in)
	m := fr.cur.get(comp)
	es := elemOfArraySort(compSorts[comp])
	na := c.fresh("app."+comp, es)
	oldS := app("select", m, app("s-reg", s))
	srcA := app("select", m, app("s-reg", src))
	// in-place array
	inPlace := fmt.Sprintf("(forall ((i Int)) (! (= (select %s i) (ite (and (<= (+ (s-off %s) (s-len %s)) i) (< i (+ (s-off %s) %s))) (select %s (+ (s-off %s) (- i (+ (s-off %s) (s-len %s))))) (select %s i))) :pattern ((select %s i))))",
		na, s, s, s, newLen, srcA, src, s, s, oldS, na)
	realloc := fmt.Sprintf("(forall ((i Int)) (! (= (select %s i) (ite (< i (s-len %s)) (select %s (+ (s-off %s) i)) (select %s (+ (s-off %s) (- i (s-len %s)))))) :pattern ((select %s i))))",
		na, s, oldS, s, srcA, src, s, na)
	c.assumeRaw("(assert (ite " + fits + " " + inPlace + " " + realloc + "))")
	fr.cur.set(comp, c.define("st."+comp, compSorts[comp], ite(eq(n, "0"), m, app("store", m, ite(fits, app("s-reg", s), freshReg), na))))
	return res
}

func (fr *Frame) appendStructs(el types.Type, s, src, n Term, fits Term, freshReg Term) {
	c := fr.c()
	if !fr.isLocalStruct(el) {
		c.note("append of external struct elements abstracted")
		return
	}
	// only the common single-element form append(s, v) keeps precise contents; reallocation loses the prefix
	c.note("append to []" + typeName(el, fr.x.e.tp) + ": prefix contents after reallocation not tracked")
	if src == "" {
		return
	}
	// src is a one-element temporary array slice created by the compiler: element at (src.reg, src.off)
	srcRef := app("elemref", app("s-reg", src), app("s-off", src))
	c.fact(and(eq(app("elemref_reg", srcRef), app("s-reg", src)), eq(app("elemref_idx", srcRef), app("s-off", src)), lt(srcRef, "0")))
	dstReg := ite(fits, app("s-reg", s), freshReg)
	dstIdx := ite(fits, add(app("s-off", s), app("s-len", s)), app("s-len", s))
	dstRef := c.define("appel", "Int", app("elemref", dstReg, dstIdx))
	c.fact(and(eq(app("elemref_reg", dstRef), dstReg), eq(app("elemref_idx", dstRef), dstIdx), lt(dstRef, "0")))
	saved := fr.cur.reach
	_ = saved
	fr.copyStruct(el, srcRef, baseInfo{"", dstRef, nil})
}

func (x *Exec) opaque(method string) bool {
	ct := x.e.cf.Funcs[x.top.RelString(x.e.tp)]
	if ct == nil {
		return false
	}
	for _, m := range ct.Opaque {
		if m == method {
			return true
		}
	}
	return false
}

// errConvention: assumed for external functions returning (..., error): when the error is nil the
// pointer / interface results are non-nil (Go convention; listed with the external in the evidence).
func (fr *Frame) errConvention(sig *types.Signature, res []Term) {
	n := sig.Results().Len()
	if n < 2 || !types.Identical(sig.Results().At(n-1).Type(), types.Universe.Lookup("error").Type()) {
		return
	}
	for i := 0; i < n-1; i++ {
		t := sig.Results().At(i).Type()
		if sortOf(t) != "Int" {
			continue
		}
		if _, _, isInt := intInfo(t); isInt {
			continue
		}
		fr.c().assume(imp(eq(res[n-1], "0"), lt("0", res[i])))
	}
}
