package main

import (
	"fmt"
	"go/constant"
	"go/token"
	"go/types"
	"sort"
	"strings"

	"golang.org/x/tools/go/packages"
	"golang.org/x/tools/go/ssa"
	"golang.org/x/tools/go/ssa/ssautil"
)

type Engine struct {
	prog  *ssa.Program
	pkg   *ssa.Package
	tp    *types.Package
	fset  *token.FileSet
	cf    *ContractFile
	funcs map[string]*ssa.Function
	// analysis results
	modsets     map[*ssa.Function]*modSet
	funcID      map[*ssa.Function]int
	idFunc      map[int]*ssa.Function
	errGlobals  map[string]int // global name -> distinct nonzero id (immutable error values)
	immGlobals  map[string]bool
	initOnly    map[string]bool                    // field components only written on freshly allocated objects
	tables      map[string]map[int64]*ssa.Function // immutable global func tables
	tableLen    map[string]int64
	mapTables   map[string]map[int64]*ssa.Function // immutable global map[int]func tables
	ifaceImpl   map[string][]*ssa.Function         // "Iface.method" -> implementations in package
	loadSeconds float64
	repo        string
}

type modEdge struct{ from, to *ssa.Function }

type modSet struct {
	comps map[string]bool
	all   bool
}

func (m *modSet) add(o *modSet) bool {
	ch := false
	if o.all && !m.all {
		m.all = true
		ch = true
	}
	for k := range o.comps {
		if !m.comps[k] {
			m.comps[k] = true
			ch = true
		}
	}
	return ch
}

func loadEngine(repo string, contractPath string) (*Engine, error) {
	cfg := &packages.Config{Mode: packages.LoadAllSyntax, Dir: repo, BuildFlags: []string{"-tags=verif"},
		Env: append(osEnviron(), "GOOS=linux", "GOARCH=amd64", "GOFLAGS=-mod=mod", "GOPROXY=off", "GOSUMDB=off", "GOTOOLCHAIN=local", "CGO_ENABLED=0")}
	pkgs, err := packages.Load(cfg, ".")
	if err != nil {
		return nil, err
	}
	if len(pkgs) != 1 {
		return nil, fmt.Errorf("expected 1 package, got %d", len(pkgs))
	}
	if len(pkgs[0].Errors) > 0 {
		return nil, fmt.Errorf("package errors: %v", pkgs[0].Errors)
	}
	prog, spkgs := ssautil.AllPackages(pkgs, ssa.NaiveForm|ssa.GlobalDebug)
	prog.Build()
	e := &Engine{prog: prog, pkg: spkgs[0], tp: pkgs[0].Types, fset: pkgs[0].Fset, funcs: map[string]*ssa.Function{}, repo: repo}
	if e.pkg == nil {
		return nil, fmt.Errorf("no ssa package")
	}
	// collect functions (including methods and closures)
	var addFn func(fn *ssa.Function)
	addFn = func(fn *ssa.Function) {
		if fn == nil || fn.Blocks == nil {
			return
		}
		key := fn.RelString(e.tp)
		if _, ok := e.funcs[key]; ok {
			return
		}
		e.funcs[key] = fn
		for _, a := range fn.AnonFuncs {
			addFn(a)
		}
	}
	for _, m := range e.pkg.Members {
		switch mm := m.(type) {
		case *ssa.Function:
			addFn(mm)
		case *ssa.Type:
			for _, t := range []types.Type{mm.Type(), types.NewPointer(mm.Type())} {
				ms := prog.MethodSets.MethodSet(t)
				for i := 0; i < ms.Len(); i++ {
					f := prog.MethodValue(ms.At(i))
					if f != nil && f.Pkg == e.pkg && f.Synthetic == "" {
						addFn(f)
					}
				}
			}
		}
	}
	cf, err := parseContractFile(contractPath)
	if err != nil {
		return nil, err
	}
	e.cf = cf
	pureDefs = cf.Pures
	declared := map[string]bool{}
	for _, st := range cf.Stable {
		declared["F."+st] = true
	}
	stableComp = func(name string) bool {
		if declared[name] {
			return true
		}
		if e.initOnly[name] {
			// only unexported leaf fields: exported fields can be written by client code
			i := strings.LastIndex(name, ".")
			f := strings.TrimSuffix(name[i+1:], "[]")
			return f != "" && f[0] >= 'a' && f[0] <= 'z'
		}
		if strings.HasPrefix(name, "G.") && e.immGlobals[name[2:]] {
			return true
		}
		return false
	}
	e.analyse()
	// a field declared stable keeps its value across calls whose contract does not name it: every function that
	// writes it and is used through a contract must therefore list it in a modifies clause (otherwise a caller would
	// combine the old value with the callee's postcondition - an inconsistent, i.e. vacuous, context)
	var stableErrs []string
	for _, st := range cf.Stable {
		field := st[strings.LastIndex(st, ".")+1:]
		for _, w := range e.writersOf("F." + st) {
			ct := cf.Funcs[w]
			if ct == nil || ct.Lemma || ct.Trusted != "" || e.writesOnlyFresh(w, "F."+st) {
				continue
			}
			listed := false
			for _, cl := range ct.Clauses {
				if cl.Kind != "modifies" {
					continue
				}
				for _, loc := range cl.Locs {
					if loc.Op == "sel" && loc.Name == field {
						listed = true
					}
					if loc.Op == "call" && loc.Name == "all" && len(loc.Args) == 1 && loc.Args[0].Op == "sel" && loc.Args[0].Name == field {
						listed = true
					}
				}
			}
			if !listed {
				stableErrs = append(stableErrs, fmt.Sprintf("stable field %s is written by %s, whose contract does not list it in a modifies clause", st, w))
			}
		}
	}
	if len(stableErrs) > 0 {
		return nil, fmt.Errorf("%s", strings.Join(stableErrs, "; "))
	}
	return e, nil
}

func (e *Engine) pos(p token.Pos) string {
	if !p.IsValid() {
		return ""
	}
	ps := e.fset.Position(p)
	f := ps.Filename
	if i := strings.LastIndex(f, "/"); i >= 0 {
		f = f[i+1:]
	}
	return fmt.Sprintf("%s:%d", f, ps.Line)
}

func (e *Engine) sortedFuncKeys() []string {
	var ks []string
	for k := range e.funcs {
		ks = append(ks, k)
	}
	sort.Strings(ks)
	return ks
}

// ---------- static analyses ----------

func (e *Engine) analyse() {
	e.funcID = map[*ssa.Function]int{}
	e.idFunc = map[int]*ssa.Function{}
	for i, k := range e.sortedFuncKeys() {
		e.funcID[e.funcs[k]] = 1000 + i
		e.idFunc[1000+i] = e.funcs[k]
	}
	e.findImmutableGlobals()
	e.findInitOnlyFields()
	e.computeModSets()
	e.findIfaceImpls()
}

func isInit(fn *ssa.Function) bool {
	return fn.Name() == "init" || strings.HasPrefix(fn.Name(), "init#") || (fn.Parent() != nil && isInit(fn.Parent()))
}

func (e *Engine) findImmutableGlobals() {
	e.errGlobals = map[string]int{}
	e.immGlobals = map[string]bool{}
	e.tables = map[string]map[int64]*ssa.Function{}
	e.tableLen = map[string]int64{}
	e.mapTables = map[string]map[int64]*ssa.Function{}
	written := map[string]bool{}
	addrTaken := map[string]bool{}
	for _, fn := range e.funcs {
		init := isInit(fn)
		for _, b := range fn.Blocks {
			for _, in := range b.Instrs {
				if st, ok := in.(*ssa.Store); ok && !init {
					if g, ok := st.Addr.(*ssa.Global); ok {
						written[g.Name()] = true
					}
				}
				// a global used other than as the address of a load/store/fieldaddr/indexaddr
				for _, op := range in.Operands(nil) {
					g, ok := (*op).(*ssa.Global)
					if !ok || g.Pkg != e.pkg {
						continue
					}
					switch u := in.(type) {
					case *ssa.UnOp:
						_ = u
					case *ssa.Store:
						if u.Addr != g {
							addrTaken[g.Name()] = true
						}
					case *ssa.DebugRef:
					default:
						if !init {
							addrTaken[g.Name()] = true
						}
					}
				}
			}
		}
	}
	var names []string
	for name, m := range e.pkg.Members {
		if g, ok := m.(*ssa.Global); ok {
			_ = g
			names = append(names, name)
		}
	}
	sort.Strings(names)
	id := 1
	for _, name := range names {
		g := e.pkg.Members[name].(*ssa.Global)
		if written[name] || addrTaken[name] {
			continue
		}
		e.immGlobals[name] = true
		el := g.Type().(*types.Pointer).Elem()
		if types.Identical(el, types.Universe.Lookup("error").Type()) {
			e.errGlobals[name] = id
			id++
		}
	}
	// function tables initialised in init: slice or map of funcs
	initFn := e.pkg.Func("init")
	if initFn == nil {
		return
	}
	for _, b := range initFn.Blocks {
		// slice literal: alloc array, stores at const indices, slice, store to global
		arrays := map[ssa.Value]map[int64]*ssa.Function{}
		for _, in := range b.Instrs {
			switch s := in.(type) {
			case *ssa.Store:
				if ia, ok := s.Addr.(*ssa.IndexAddr); ok {
					if k, ok := ia.Index.(*ssa.Const); ok && k.Value != nil {
						if f := asFunc(s.Val); f != nil {
							if arrays[ia.X] == nil {
								arrays[ia.X] = map[int64]*ssa.Function{}
							}
							idx, _ := constant.Int64Val(k.Value)
							arrays[ia.X][idx] = f
						}
					}
				}
				if g, ok := s.Addr.(*ssa.Global); ok && e.immGlobals[g.Name()] {
					if sl, ok := s.Val.(*ssa.Slice); ok {
						if tab, ok := arrays[sl.X]; ok {
							e.tables[g.Name()] = tab
							if at, ok := sl.X.Type().(*types.Pointer).Elem().Underlying().(*types.Array); ok {
								e.tableLen[g.Name()] = at.Len()
							}
						}
					}
				}
			}
		}
	}
	// map tables: written by MapUpdate in init functions only
	for _, fn := range e.funcs {
		if !isInit(fn) {
			continue
		}
		for _, b := range fn.Blocks {
			for _, in := range b.Instrs {
				mu, ok := in.(*ssa.MapUpdate)
				if !ok {
					continue
				}
				ld, ok := mu.Map.(*ssa.UnOp)
				if !ok {
					continue
				}
				g, ok := ld.X.(*ssa.Global)
				if !ok {
					continue
				}
				k, ok := mu.Key.(*ssa.Const)
				if !ok || k.Value == nil {
					continue
				}
				f := asFunc(mu.Value)
				if f == nil {
					continue
				}
				if e.mapTables[g.Name()] == nil {
					e.mapTables[g.Name()] = map[int64]*ssa.Function{}
				}
				idx, _ := constant.Int64Val(k.Value)
				e.mapTables[g.Name()][idx] = f
			}
		}
	}
	// a map table is only usable if no non-init function updates the map
	for _, fn := range e.funcs {
		if isInit(fn) {
			continue
		}
		for _, b := range fn.Blocks {
			for _, in := range b.Instrs {
				if mu, ok := in.(*ssa.MapUpdate); ok {
					if ld, ok := mu.Map.(*ssa.UnOp); ok {
						if g, ok := ld.X.(*ssa.Global); ok {
							delete(e.mapTables, g.Name())
						}
					}
				}
			}
		}
	}
}

func asFunc(v ssa.Value) *ssa.Function {
	switch x := v.(type) {
	case *ssa.Function:
		return x
	case *ssa.ChangeType:
		return asFunc(x.X)
	case *ssa.MakeClosure:
		if f, ok := x.Fn.(*ssa.Function); ok && len(x.Bindings) == 0 {
			return f
		}
	}
	return nil
}

// findInitOnlyFields: a field component is "init-only" if every store to it in the
// package goes through a base object allocated in the same function (constructor pattern).
func (e *Engine) findInitOnlyFields() {
	e.initOnly = map[string]bool{}
	bad := map[string]bool{}
	seen := map[string]bool{}
	for _, fn := range e.funcs {
		for _, b := range fn.Blocks {
			for _, in := range b.Instrs {
				var addr ssa.Value
				switch s := in.(type) {
				case *ssa.Store:
					addr = s.Addr
				case *ssa.Call:
					// atomics on a field address count as writes
					if f := s.Call.StaticCallee(); f != nil && f.Pkg != nil && f.Pkg.Pkg.Path() == "sync/atomic" && len(s.Call.Args) > 0 {
						if !strings.HasPrefix(f.Name(), "Load") {
							addr = s.Call.Args[0]
						}
					}
				}
				if addr == nil {
					continue
				}
				comp, base := e.staticFieldComp(addr)
				if comp == "" {
					continue
				}
				seen[comp] = true
				if !isFreshBase(base) {
					bad[comp] = true
				}
			}
		}
	}
	for c := range seen {
		if !bad[c] {
			e.initOnly[c] = true
		}
	}
}

// writesOnlyFresh: every store of function key to the component goes to an object allocated in that function
func (e *Engine) writesOnlyFresh(key, comp string) bool {
	fn := e.funcs[key]
	if fn == nil {
		return false
	}
	for _, b := range fn.Blocks {
		for _, in := range b.Instrs {
			s, ok := in.(*ssa.Store)
			if !ok {
				continue
			}
			if c, base := e.staticFieldComp(s.Addr); c == comp && !isFreshBase(base) {
				return false
			}
		}
	}
	return true
}

func isFreshBase(v ssa.Value) bool {
	switch x := v.(type) {
	case *ssa.Alloc:
		return true
	case *ssa.UnOp:
		// load of a local cell that only ever holds a fresh allocation
		if a, ok := x.X.(*ssa.Alloc); ok && x.Op == token.MUL {
			stores := 0
			fresh := true
			for _, r := range *a.Referrers() {
				if st, ok := r.(*ssa.Store); ok && st.Addr == a {
					stores++
					if _, ok := st.Val.(*ssa.Alloc); !ok {
						fresh = false
					}
				}
			}
			return stores >= 1 && fresh
		}
	}
	return false
}

// staticFieldComp returns the component name and root base value of a field address, or "".
func (e *Engine) staticFieldComp(addr ssa.Value) (string, ssa.Value) {
	switch a := addr.(type) {
	case *ssa.FieldAddr:
		st := a.X.Type().Underlying().(*types.Pointer).Elem()
		fname := st.Underlying().(*types.Struct).Field(a.Field).Name()
		if inner, ok := a.X.(*ssa.FieldAddr); ok {
			c, base := e.staticFieldComp(inner)
			if c != "" {
				return c + "." + fname, base
			}
		}
		if ia, ok := a.X.(*ssa.IndexAddr); ok {
			if inner, ok := ia.X.(*ssa.FieldAddr); ok {
				c, base := e.staticFieldComp(inner)
				if c != "" {
					return c + "[]." + fname, base
				}
			}
		}
		return "F." + typeName(st, e.tp) + "." + fname, a.X
	case *ssa.IndexAddr:
		if inner, ok := a.X.(*ssa.FieldAddr); ok {
			c, base := e.staticFieldComp(inner)
			if c != "" {
				return c + "[]", base
			}
		}
	case *ssa.Convert:
		return e.staticFieldComp(a.X)
	case *ssa.ChangeType:
		return e.staticFieldComp(a.X)
	}
	return "", nil
}

// computeModSets: which heap components can a function write (transitively)?
func (e *Engine) computeModSets() {
	e.modsets = map[*ssa.Function]*modSet{}
	for _, fn := range e.funcs {
		e.modsets[fn] = &modSet{comps: map[string]bool{}}
	}
	var edges []modEdge
	for _, fn := range e.funcs {
		ms := e.modsets[fn]
		for _, b := range fn.Blocks {
			for _, in := range b.Instrs {
				switch s := in.(type) {
				case *ssa.Store:
					e.addStoreMod(ms, s.Addr)
				case *ssa.MapUpdate:
					ms.comps["MAP"] = true
					ms.comps["MAPOK"] = true
				case *ssa.Go:
					e.callMod(fn, ms, &s.Call, &edges)
				case *ssa.Defer:
					e.callMod(fn, ms, &s.Call, &edges)
				case *ssa.Call:
					e.callMod(fn, ms, &s.Call, &edges)
				case *ssa.MakeClosure:
					if f, ok := s.Fn.(*ssa.Function); ok {
						_ = f // closure body effects are accounted when it is called (dynamic => all)
					}
				}
			}
		}
	}
	for changed := true; changed; {
		changed = false
		for _, ed := range edges {
			cal := e.modsets[ed.to]
			if cal == nil {
				continue
			}
			// a callee with a contract contributes its declared modifies instead (handled at use)
			if e.modsets[ed.from].add(cal) {
				changed = true
			}
		}
	}
}

func (e *Engine) addStoreMod(ms *modSet, addr ssa.Value) {
	switch a := addr.(type) {
	case *ssa.Alloc:
		return // local cell or local object
	case *ssa.Global:
		ms.comps["G."+a.Name()] = true
		return
	}
	if c, base := e.staticFieldComp(addr); c != "" {
		if _, local := base.(*ssa.Alloc); local && false {
			return
		}
		ms.comps[c] = true
		return
	}
	// memory: pick the component by the pointee type
	if el := ptrElem(addr.Type()); el != nil {
		if _, _, ok := intInfo(el); ok {
			// integer stores may go through unsafe byte pointers or into []int
			ms.comps["M"] = true
			ms.comps["MR"] = true
			return
		}
		ms.comps[memComp(el)] = true
		return
	}
	for _, k := range memAll {
		ms.comps[k] = true
	}
}

var memAll = []string{"M", "MS", "MR", "MB", "MP"}

func (e *Engine) callMod(fn *ssa.Function, ms *modSet, call *ssa.CallCommon, edges *[]modEdge) {
	if call.IsInvoke() {
		ms.all = true
		return
	}
	switch c := call.Value.(type) {
	case *ssa.Builtin:
		switch c.Name() {
		case "copy", "append":
			if st, ok := call.Args[0].Type().Underlying().(*types.Slice); ok {
				ms.comps[memComp(st.Elem())] = true
			} else {
				ms.comps["M"] = true
			}
		case "delete":
			ms.comps["MAP"] = true
			ms.comps["MAPOK"] = true
		}
		return
	case *ssa.Function:
		if c.Pkg == e.pkg || (c.Parent() != nil && c.Parent().Pkg == e.pkg) {
			if _, ok := e.modsets[c]; ok {
				*edges = append(*edges, modEdge{fn, c})
				return
			}
		}
		if eff := externEffect(c); eff != nil {
			for _, k := range eff {
				if k == "*" {
					ms.all = true
				} else {
					ms.comps[k] = true
				}
			}
		}
		// atomics writing through a field address
		if c.Pkg != nil && c.Pkg.Pkg.Path() == "sync/atomic" && !strings.HasPrefix(c.Name(), "Load") && len(call.Args) > 0 {
			e.addStoreMod(ms, call.Args[0])
		}
		return
	case *ssa.MakeClosure:
		if f, ok := c.Fn.(*ssa.Function); ok {
			if _, ok := e.modsets[f]; ok {
				*edges = append(*edges, modEdge{fn, f})
				return
			}
		}
	}
	ms.all = true
}

// externEffect: heap components an external function may write. nil = none.
func externEffect(f *ssa.Function) []string {
	name := f.String()
	switch {
	case strings.HasPrefix(name, "sync/atomic."):
		return nil // handled separately
	case name == "golang.org/x/sys/unix.Read", name == "syscall.Read", name == "golang.org/x/sys/unix.Recvmsg",
		name == "(encoding/binary.bigEndian).PutUint16", name == "(encoding/binary.bigEndian).PutUint32", name == "(encoding/binary.bigEndian).PutUint64",
		name == "golang.org/x/sys/unix.RawSyscall", name == "golang.org/x/sys/unix.Syscall":
		return []string{"M"}
	case name == "sort.Sort":
		return memAll
	case name == "(*sync.Once).Do", name == "time.AfterFunc", name == "github.com/bytedance/gopkg/util/gopool.Go":
		return []string{"*"}
	}
	return nil
}

// writersOf: every function of the package that stores to (or atomically updates) a field component
func (e *Engine) writersOf(comp string) []string {
	set := map[string]bool{}
	for key, fn := range e.funcs {
		for _, b := range fn.Blocks {
			for _, in := range b.Instrs {
				var addr ssa.Value
				switch s := in.(type) {
				case *ssa.Store:
					addr = s.Addr
				case *ssa.Call:
					if f := s.Call.StaticCallee(); f != nil && f.Pkg != nil && f.Pkg.Pkg.Path() == "sync/atomic" && len(s.Call.Args) > 0 && !strings.HasPrefix(f.Name(), "Load") {
						addr = s.Call.Args[0]
					}
				}
				if addr == nil {
					continue
				}
				if c, _ := e.staticFieldComp(addr); c == comp {
					set[key] = true
				}
			}
		}
	}
	return sortedKeys(set)
}

func (e *Engine) findIfaceImpls() {
	e.ifaceImpl = map[string][]*ssa.Function{}
}

func osEnviron() []string { return environ() }
