package main

import (
	"os"
	"fmt"
	"go/constant"
	"go/types"
	"strconv"
	"strings"

	"golang.org/x/tools/go/ssa"
)

type specEnv struct {
	fr    *Frame
	st    *State
	old   *State
	vars  map[string]sval
	bound map[string]bool
	// preferLocals: identifiers resolve to the current value of local variables first (loop invariants)
	preferLocals bool
	qfacts       *[]Term
	assuming     bool // the formula is being assumed: positive universal quantifiers are also instantiated at every index the code uses
	negative     bool // inside a negation or on the left of an implication
	hyps         []Term
	goalHyp      bool // evaluating a hypothesis of a goal: using(lemma(..)) instantiates the lemma
}

type specError struct{ msg string }

func specFail(format string, a ...interface{}) { panic(specError{fmt.Sprintf(format, a...)}) }

func (se *specEnv) with(st *State) *specEnv {
	n := *se
	n.st = st
	if st == se.fr.entry {
		// in the function's entry state the local variable cells are not initialised yet:
		// identifiers denote the parameters' entry values
		n.preferLocals = false
	}
	return &n
}

// evalIn evaluates with fr.cur temporarily set to the spec's state.
func (se *specEnv) eval(e *Spec) sval {
	saved := se.fr.cur
	se.fr.cur = se.st
	defer func() { se.fr.cur = saved }()
	return se.ev(e)
}

func mathInt(t Term) sval  { return sval{t: t, sort: "Int"} }
func mathBool(t Term) sval { return sval{t: t, sort: "Bool"} }

func (se *specEnv) resolveType(s string) types.Type {
	s = strings.TrimSpace(s)
	if strings.HasPrefix(s, "*") {
		return types.NewPointer(se.resolveType(s[1:]))
	}
	if strings.HasPrefix(s, "[]") {
		return types.NewSlice(se.resolveType(s[2:]))
	}
	switch s {
	case "int", "bool":
		return nil
	}
	if o := types.Universe.Lookup(s); o != nil {
		return o.Type()
	}
	if o := se.fr.x.e.tp.Scope().Lookup(s); o != nil {
		return o.Type()
	}
	specFail("unknown type %q", s)
	return nil
}

func (se *specEnv) ev(e *Spec) sval {
	fr := se.fr
	switch e.Op {
	case "num":
		n, err := strconv.ParseInt(strings.ReplaceAll(e.Name, "_", ""), 0, 64)
		if err != nil {
			u, err2 := strconv.ParseUint(strings.ReplaceAll(e.Name, "_", ""), 0, 64)
			if err2 != nil {
				specFail("bad number %s", e.Name)
			}
			return mathInt(fmt.Sprint(u))
		}
		return mathInt(num(n))
	case "ident":
		return se.ident(e.Name)
	case "sel":
		x := se.ev(e.Args[0])
		return se.sel(x, e.Name)
	case "index":
		x := se.ev(e.Args[0])
		i := se.ev(e.Args[1])
		if x.typ == nil {
			// ghost array
			return sval{t: app("select", x.t, i.t), sort: elemOfArraySort(x.sort)}
		}
		switch xt := x.typ.Underlying().(type) {
		case *types.Slice:
			if fr.c().inlineDepth == 0 {
				fr.instantiateAt(i.t)
			}
			a := Addr{kind: aMem, reg: app("s-reg", x.t), off: add(app("s-off", x.t), i.t), elem: xt.Elem()}
			v := fr.load(a, nil)
			return sval{t: v, typ: xt.Elem(), sort: sortOf(xt.Elem()), addr: &a}
		case *types.Map:
			v := app("select", app("select", se.st.get("MAP"), x.t), i.t)
			return sval{t: v, typ: xt.Elem(), sort: sortOf(xt.Elem())}
		case *types.Basic:
			if isString(x.typ) {
				return mathInt(app("select", app("select", se.st.get("M"), app("s-reg", x.t)), add(app("s-off", x.t), i.t)))
			}
		case *types.Array:
			if x.addr != nil && x.addr.kind == aField {
				comp := x.addr.comp + "[]"
				fr.x.compSort(comp, nestSort(sortOf(xt.Elem()), 1))
				a := Addr{kind: aField, comp: comp, ref: x.addr.ref, idx: []Term{i.t}, elem: xt.Elem()}
				return sval{t: fr.load(a, nil), typ: xt.Elem(), sort: sortOf(xt.Elem()), addr: &a}
			}
		}
		specFail("cannot index %s", e.Args[0])
	case "slice":
		x := se.ev(e.Args[0])
		if x.sort != "Slice" {
			specFail("cannot slice %s", e.Args[0])
		}
		lo, hi := Term("0"), app("s-len", x.t)
		if e.Args[1] != nil {
			lo = se.ev(e.Args[1]).t
		}
		if e.Args[2] != nil {
			hi = se.ev(e.Args[2]).t
		}
		return sval{t: app("mk-slice", app("s-reg", x.t), add(app("s-off", x.t), lo), sub(hi, lo), sub(app("s-cap", x.t), lo)), typ: x.typ, sort: "Slice"}
	case "unary":
		if e.Name == "!" {
			n := *se
			n.negative = !se.negative
			return mathBool(not(n.ev(e.Args[0]).t))
		}
		x := se.ev(e.Args[0])
		switch e.Name {
		case "!":
			return mathBool(not(x.t))
		case "-":
			return mathInt(app("-", x.t))
		case "*":
			if x.typ == nil {
				specFail("deref of non-pointer %s", e.Args[0])
			}
			el := ptrElem(x.typ)
			if el == nil {
				specFail("deref of non-pointer %s", e.Args[0])
			}
			if x.sort == "Ptr" {
				a := Addr{kind: aPtr, ptr: x.t, elem: el}
				return sval{t: fr.load(a, nil), typ: el, sort: sortOf(el), addr: &a}
			}
			return sval{t: x.t, typ: el, sort: "Int"}
		}
	case "bin":
		return se.bin(e)
	case "forall", "exists":
		return se.quant(e)
	case "call":
		return se.call(e)
	case "str":
		return sval{t: fr.x.strLit(e.Name), sort: "Int"}
	}
	specFail("cannot evaluate %s", e)
	return sval{}
}

func elemOfArraySort(s string) string {
	// "(Array Int X)" -> X
	if strings.HasPrefix(s, "(Array Int ") {
		return s[len("(Array Int ") : len(s)-1]
	}
	return "Int"
}

func (se *specEnv) ident(name string) sval {
	fr := se.fr
	switch name {
	case "true":
		return mathBool("true")
	case "false":
		return mathBool("false")
	case "nil":
		return sval{t: "nil", sort: "nil"}
	}
	if !se.preferLocals || se.bound[name] {
		if v, ok := se.vars[name]; ok {
			return v
		}
	}
	// ghost variable of the contract
	if fr.contract != nil {
		for _, g := range fr.contract.GhostVars {
			if g.Name == name {
				cn := fr.ghostCell(name)
				if _, ok := compSorts[cn]; ok {
					return sval{t: se.st.get(cn), sort: g.Sort}
				}
			}
		}
	}
	// local variable cell of the frame being verified
	if a := fr.findLocal(name); a != nil {
		el := ptrElem(a.Type())
		if isObjectType(el) {
			if ref, ok := fr.allocRef[a]; ok {
				return sval{t: ref, typ: types.NewPointer(el), sort: "Int"}
			}
		} else {
			cn := fr.cellName(a)
			if _, ok := compSorts[cn]; ok {
				ad := Addr{kind: aCell, comp: cn, elem: el}
				return sval{t: se.st.get(cn), typ: el, sort: sortOf(el), addr: &ad}
			}
		}
	}
	if v, ok := se.vars[name]; ok {
		return v
	}
	// captured variable of a closure
	for _, fv := range fr.fn.FreeVars {
		if fv.Name() == name {
			a := fr.addrOf(fv)
			if a.kind == aCell {
				return sval{t: se.st.get(a.comp), typ: a.elem, sort: sortOf(a.elem), addr: &a}
			}
		}
	}
	// package-level constant or variable
	if o := fr.x.e.tp.Scope().Lookup(name); o != nil {
		switch ob := o.(type) {
		case *types.Const:
			if ob.Val().Kind() == constant.Int {
				return mathInt(ob.Val().ExactString())
			}
			if ob.Val().Kind() == constant.Bool {
				if constant.BoolVal(ob.Val()) {
					return mathBool("true")
				}
				return mathBool("false")
			}
		case *types.Var:
			if id, ok := fr.x.e.errGlobals[name]; ok {
				return sval{t: num(int64(id)), typ: ob.Type(), sort: "Int"}
			}
			comp := "G." + name
			fr.x.compSort(comp, sortOf(ob.Type()))
			return sval{t: se.st.get(comp), typ: ob.Type(), sort: sortOf(ob.Type())}
		}
	}
	specFail("unknown identifier %q", name)
	return sval{}
}

func (fr *Frame) findLocal(name string) *ssa.Alloc {
	want := name
	ord := 0
	if i := strings.Index(name, "$"); i > 0 {
		want = name[:i]
		ord, _ = strconv.Atoi(name[i+1:])
	}
	k := 0
	for _, b := range fr.fn.Blocks {
		for _, in := range b.Instrs {
			if a, ok := in.(*ssa.Alloc); ok && a.Comment == want {
				if k == ord {
					return a
				}
				k++
			}
		}
	}
	for _, a := range fr.fn.Locals {
		if a.Comment == want {
			return a
		}
	}
	return nil
}

func (se *specEnv) sel(x sval, name string) sval {
	fr := se.fr
	if x.typ == nil {
		specFail("field %s of untyped value", name)
	}
	T := x.typ
	if p, ok := T.Underlying().(*types.Pointer); ok {
		T = p.Elem()
	}
	obj, path, _ := types.LookupFieldOrMethod(T, true, fr.x.e.tp, name)
	fv, ok := obj.(*types.Var)
	if !ok || fv == nil {
		// ghost field?
		tn := typeName(T, fr.x.e.tp)
		for _, g := range fr.x.e.cf.Ghost {
			if g.Type == tn && g.Field == name {
				comp := "F." + tn + "." + name
				fr.x.compSort(comp, "(Array Int "+ghostSort(g.Sort)+")")
				ad := Addr{kind: aField, comp: comp, ref: x.t}
				return sval{t: app("select", se.st.get(comp), x.t), sort: ghostSort(g.Sort), addr: &ad}
			}
		}
		specFail("no field %s in %s", name, T)
	}
	comp := "F." + typeName(T, fr.x.e.tp)
	ref := x.t
	var idx []Term
	if x.addr != nil && x.addr.kind == aField {
		if _, isS := x.typ.Underlying().(*types.Struct); isS {
			comp, ref, idx = x.addr.comp, x.addr.ref, x.addr.idx
		}
	}
	cur := T
	var ft types.Type
	for k, i := range path {
		st := cur.Underlying().(*types.Struct)
		f := st.Field(i)
		comp += "." + f.Name()
		ft = f.Type()
		if k < len(path)-1 {
			if p, ok := ft.Underlying().(*types.Pointer); ok {
				fr.x.compSort(comp, nestSort("Int", len(idx)))
				a := Addr{kind: aField, comp: comp, ref: ref, idx: idx, elem: ft}
				ref = fr.selectComp(a)
				idx = nil
				cur = p.Elem()
				comp = "F." + typeName(cur, fr.x.e.tp)
			} else {
				cur = ft
			}
		}
	}
	fr.x.compSort(comp, nestSort(sortOf(ft), len(idx)))
	a := Addr{kind: aField, comp: comp, ref: ref, idx: idx, elem: ft}
	if _, isS := ft.Underlying().(*types.Struct); isS && fr.isLocalStruct(ft) {
		return sval{t: ref, typ: ft, sort: "Int", addr: &a}
	}
	if _, isA := ft.Underlying().(*types.Array); isA {
		return sval{t: ref, typ: ft, sort: "Int", addr: &a}
	}
	v := fr.selectComp(a)
	if fr.x.e.cf.NonNil[comp] {
		fr.c().fact(not(eq(v, zeroOf(ft))))
	}
	fr.loadFacts(ft, v) // machine range / slice well-formedness / allocation watermark are type invariants
	return sval{t: v, typ: ft, sort: sortOf(ft), addr: &a}
}

func ghostSort(s string) string {
	switch strings.TrimSpace(s) {
	case "int":
		return "Int"
	case "bool":
		return "Bool"
	case "[int]int":
		return "(Array Int Int)"
	case "[int]bool":
		return "(Array Int Bool)"
	}
	return s
}

func (se *specEnv) bin(e *Spec) sval {
	op := e.Name
	switch op {
	case "&&":
		return mathBool(and(se.ev(e.Args[0]).t, se.ev(e.Args[1]).t))
	case "||":
		return mathBool(or(se.ev(e.Args[0]).t, se.ev(e.Args[1]).t))
	case "==>":
		l := *se
		l.negative = !se.negative
		lhs := l.ev(e.Args[0]).t
		r := *se
		r.hyps = append(append([]Term{}, se.hyps...), lhs)
		return mathBool(imp(lhs, r.ev(e.Args[1]).t))
	case "<==>":
		n := *se
		n.assuming = false
		return mathBool(eq(n.ev(e.Args[0]).t, n.ev(e.Args[1]).t))
	}
	x, y := se.ev(e.Args[0]), se.ev(e.Args[1])
	if x.sort == "nil" && y.sort == "nil" {
		specFail("nil == nil")
	}
	if x.sort == "nil" {
		x = sval{t: zeroOfSort(y.sort), sort: y.sort}
	}
	if y.sort == "nil" {
		y = sval{t: zeroOfSort(x.sort), sort: x.sort}
	}
	switch op {
	case "==", "!=":
		var t Term
		if x.sort == "Slice" && (y.t == "nilslice" || x.t == "nilslice") && !(x.typ != nil && isString(x.typ)) {
			o := x.t
			if x.t == "nilslice" {
				o = y.t
			}
			t = eq(app("s-reg", o), "0")
		} else {
			t = eq(x.t, y.t)
		}
		if op == "!=" {
			t = not(t)
		}
		return mathBool(t)
	case "<":
		return mathBool(lt(x.t, y.t))
	case "<=":
		return mathBool(le(x.t, y.t))
	case ">":
		return mathBool(lt(y.t, x.t))
	case ">=":
		return mathBool(le(y.t, x.t))
	case "+":
		return mathInt(app("+", x.t, y.t))
	case "-":
		return mathInt(app("-", x.t, y.t))
	case "*":
		return mathInt(se.fr.c().mul(x.t, y.t))
	case "/", "%":
		c := se.fr.c()
		q, rm := app("div", x.t, y.t), app("mod", x.t, y.t)
		if _, err := strconv.Atoi(y.t); err != nil {
			// Euclid's identity for a non-constant divisor
			c.fact(imp(lt("0", y.t), and(eq(x.t, add(c.mul(y.t, q), rm)), le("0", rm), lt(rm, y.t))))
		}
		if op == "/" {
			return mathInt(q)
		}
		return mathInt(rm)
	}
	specFail("operator %s", op)
	return sval{}
}

func zeroOfSort(s string) Term {
	switch s {
	case "Slice":
		return "nilslice"
	case "Ptr":
		return "nilptr"
	case "Bool":
		return "false"
	}
	return "0"
}

var qvarSeq int

func (se *specEnv) quant(e *Spec) sval {
	fr := se.fr
	c := fr.c()
	qvarSeq++
	v := fmt.Sprintf("%s!q%d", e.Name, qvarSeq)
	n := *se
	n.vars = map[string]sval{}
	for k, x := range se.vars {
		n.vars[k] = x
	}
	n.bound = map[string]bool{}
	for k := range se.bound {
		n.bound[k] = true
	}
	n.vars[e.Name] = mathInt(v)
	n.bound[e.Name] = true
	c.inlineDepth++
	savedFacts := c.qfacts
	var facts []Term
	c.qfacts = &facts
	lo := n.ev(e.Args[0]).t
	hi := n.ev(e.Args[1]).t
	body := n.ev(e.Args[2]).t
	trig := ""
	if e.Trig != nil {
		trig = n.ev(e.Trig).t
	}
	c.inlineDepth--
	c.qfacts = savedFacts
	rng := and(le(lo, v), lt(v, hi))
	// facts about terms mentioning the bound variable become their own axioms
	for _, f := range facts {
		if strings.Contains(f, v) {
			w := fmt.Sprintf("(forall ((%s Int)) %s)", sym(v), f)
			if savedFacts != nil {
				// nested quantifier: the fact may also mention an enclosing bound variable; the enclosing quantifier closes it
				*savedFacts = append(*savedFacts, w)
			} else {
				c.assumeRaw(fmt.Sprintf("(assert %s)", w))
			}
		} else if savedFacts != nil {
			*savedFacts = append(*savedFacts, f)
		} else {
			c.fact(f)
		}
	}
	if e.Op == "forall" && se.assuming && !se.negative && c.inlineDepth == 0 {
		// remember how to instantiate this assumed universal fact: the engine instantiates it at every
		// index expression the code uses afterwards (explicit instantiation instead of relying on triggers).
		// lo/hi/body were evaluated in the state of the assumption with the bound variable as a symbol,
		// so an instance is a textual substitution (no state is captured).
		hyps := append([]Term{}, se.hyps...)
		reach := se.st.reach
		bv := sym(v)
		qf := append([]Term{}, facts...)
		c.instantiators = append(c.instantiators, func(idx Term) {
			sub := func(t Term) Term { return strings.ReplaceAll(t, bv, idx) }
			for _, f := range qf {
				if strings.Contains(f, bv) {
					c.fact(sub(f))
				}
			}
			c.assume(imp(and(reach, and(hyps...), le(sub(lo), idx), lt(idx, sub(hi))), sub(body)))
		})
	}
	var t Term
	if e.Op == "forall" {
		inner := imp(rng, body)
		if trig != "" {
			inner = fmt.Sprintf("(! %s :pattern (%s))", inner, trig)
		}
		t = fmt.Sprintf("(forall ((%s Int)) %s)", sym(v), inner)
	} else {
		t = fmt.Sprintf("(exists ((%s Int)) %s)", sym(v), and(rng, body))
	}
	return mathBool(t)
}

func (se *specEnv) call(e *Spec) sval {
	fr := se.fr
	c := fr.c()
	arg := func(i int) sval {
		if i >= len(e.Args) {
			specFail("%s: missing argument %d", e.Name, i)
		}
		return se.ev(e.Args[i])
	}
	switch e.Name {
	case "old":
		if se.old == nil {
			specFail("old() not available here")
		}
		return se.with(se.old).evalKeep(e.Args[0])
	case "iter":
		// value of an expression at the start of the current loop iteration (only in loop hints / invariants
		// evaluated at a back edge)
		if fr.curLoopIter == nil {
			specFail("iter() is only available at the back edge of a loop")
		}
		return se.with(fr.curLoopIter).evalKeep(e.Args[0])
	case "entry":
		// value of an expression when the enclosing loop was entered (only inside loop invariants)
		if fr.curLoopEntry == nil {
			specFail("entry() is only available in loop invariants")
		}
		return se.with(fr.curLoopEntry).evalKeep(e.Args[0])
	case "len":
		x := arg(0)
		if x.sort != "Slice" {
			if x.typ != nil {
				if at, ok := x.typ.Underlying().(*types.Array); ok {
					return mathInt(num(at.Len()))
				}
			}
			specFail("len of non-slice %s", e.Args[0])
		}
		return mathInt(app("s-len", x.t))
	case "cap":
		return mathInt(app("s-cap", arg(0).t))
	case "region":
		return mathInt(app("s-reg", arg(0).t))
	case "off":
		return mathInt(app("s-off", arg(0).t))
	case "preg":
		return mathInt(app("p-reg", arg(0).t))
	case "poff":
		return mathInt(app("p-off", arg(0).t))
	case "mem8", "mem16", "mem32", "mem64", "be16", "be32", "be64":
		s, i := arg(0), arg(1)
		region := app("select", se.st.get("M"), app("s-reg", s.t))
		off := add(app("s-off", s.t), i.t)
		fn := map[string]string{"mem8": "rd1", "mem16": "rd2", "mem32": "rd4", "mem64": "rd8", "be16": "be2", "be32": "be4", "be64": "be8"}[e.Name]
		w := map[string]int{"mem8": 1, "mem16": 2, "mem32": 4, "mem64": 8, "be16": 2, "be32": 4, "be64": 8}[e.Name]
		fr.byteFacts(region, off, w)
		return mathInt(app(fn, region, off))
	case "pmem32", "pmem64", "pmem16", "pmem8":
		// little-endian word at pointer + byte offset
		p, i := arg(0), arg(1)
		region := app("select", se.st.get("M"), app("p-reg", p.t))
		off := add(app("p-off", p.t), i.t)
		fn := map[string]string{"pmem8": "rd1", "pmem16": "rd2", "pmem32": "rd4", "pmem64": "rd8"}[e.Name]
		w := map[string]int{"pmem8": 1, "pmem16": 2, "pmem32": 4, "pmem64": 8}[e.Name]
		fr.byteFacts(region, off, w)
		return mathInt(app(fn, region, off))
	case "sameMem":
		// sameMem(a, b, i): slice a starts at byte i of slice b (same region)
		a, b, i := arg(0), arg(1), arg(2)
		return mathBool(and(eq(app("s-reg", a.t), app("s-reg", b.t)), eq(app("s-off", a.t), add(app("s-off", b.t), i.t))))
	case "ptrAt":
		// ptrAt(p, s, i): pointer p addresses byte i of slice s
		p, s, i := arg(0), arg(1), arg(2)
		return mathBool(and(eq(app("p-reg", p.t), app("s-reg", s.t)), eq(app("p-off", p.t), add(app("s-off", s.t), i.t))))
	case "fresh":
		x := arg(0)
		if se.old == nil {
			specFail("fresh() needs an old state")
		}
		w := se.old.get("W")
		if x.sort == "Slice" {
			return mathBool(le(w, app("s-reg", x.t)))
		}
		return mathBool(le(w, x.t))
	case "allocated":
		x := arg(0)
		w := se.st.get("W")
		if x.sort == "Slice" {
			return mathBool(lt(app("s-reg", x.t), w))
		}
		return mathBool(and(lt(x.t, w)))
	case "unchanged":
		if se.old == nil {
			specFail("unchanged() needs an old state")
		}
		var ts []Term
		for _, a := range e.Args {
			if a.Op == "call" && a.Name == "region" {
				s := se.ev(a.Args[0])
				ts = append(ts, eq(app("select", se.st.get("M"), app("s-reg", s.t)), app("select", se.old.get("M"), app("s-reg", s.t))))
				continue
			}
			nw := se.ev(a)
			od := se.with(se.old).evalKeep(a)
			ts = append(ts, eq(nw.t, od.t))
		}
		return mathBool(and(ts...))
	case "ite":
		cnd, a, b := arg(0), arg(1), arg(2)
		return sval{t: ite(cnd.t, a.t, b.t), typ: a.typ, sort: a.sort}
	case "min":
		a, b := arg(0), arg(1)
		return mathInt(ite(le(a.t, b.t), a.t, b.t))
	case "max":
		a, b := arg(0), arg(1)
		return mathInt(ite(le(a.t, b.t), b.t, a.t))
	case "int", "int64", "int32", "uint32", "uint64", "uint16", "uint8", "uint":
		x := arg(0)
		t := types.Universe.Lookup(e.Name).Type()
		return sval{t: wrapInt(t, x.t), typ: t, sort: "Int"}
	case "isnil":
		x := arg(0)
		if x.sort == "Slice" {
			return mathBool(eq(app("s-reg", x.t), "0"))
		}
		return mathBool(eq(x.t, zeroOfSort(x.sort)))
	case "mapHas":
		m, k := arg(0), arg(1)
		return mathBool(and(not(eq(m.t, "0")), app("select", app("select", se.st.get("MAPOK"), m.t), k.t)))
	case "mapGet":
		m, k := arg(0), arg(1)
		var et types.Type
		if m.typ != nil {
			if mt, ok := m.typ.Underlying().(*types.Map); ok {
				et = mt.Elem()
			}
		}
		return sval{t: app("select", app("select", se.st.get("MAP"), m.t), k.t), typ: et, sort: "Int"}
	case "byteof":
		return mathInt(app("byteof", arg(0).t, arg(1).t))
	case "store":
		a, i, v := arg(0), arg(1), arg(2)
		return sval{t: app("store", a.t, i.t, v.t), sort: a.sort}
	case "constarray":
		// constarray(v): the array that is v everywhere (initial value of a ghost map)
		v := arg(0)
		so := v.sort
		if so == "" {
			so = "Int"
		}
		return sval{t: constArray(so, v.t), sort: "(Array Int " + so + ")"}
	case "folded":
		// folded(P(args)): only the folded form (uninterpreted atom over arguments and footprint versions) of a
		// predicate instance, without its expansion. Weaker than P(args) when assumed, provable only from an
		// assumed instance over the same footprint when it is a goal: sound in both directions.
		if len(e.Args) != 1 || e.Args[0].Op != "call" {
			specFail("folded(P(args)) expected")
		}
		var dropped []Term
		savedQ := c.qfacts
		c.qfacts = &dropped
		n := *se
		n.assuming = false
		c.lastAtom = ""
		r := n.ev(e.Args[0])
		c.qfacts = savedQ
		if c.lastAtom == "" {
			return r
		}
		return mathBool(c.lastAtom)
	case "using":
		// using(lemma(args)): a separately proved arithmetic lemma, instantiated when it is a
		// hypothesis of a goal; "true" when the enclosing formula is assumed (the lemma is valid).
		if len(e.Args) != 1 || e.Args[0].Op != "call" {
			specFail("using(lemma(args)) expected")
		}
		lc := e.Args[0]
		pd, ok := fr.x.e.cf.Ariths[lc.Name]
		if !ok {
			specFail("unknown arith lemma %s", lc.Name)
		}
		fr.x.lemmasUsed[lc.Name] = true
		if !se.goalHyp {
			return mathBool("true")
		}
		n := *se
		n.vars = map[string]sval{}
		n.bound = map[string]bool{}
		for i, p := range pd.Params {
			n.vars[p.Name] = mathInt(se.ev(lc.Args[i]).t)
			n.bound[p.Name] = true
		}
		n.preferLocals = false
		return n.ev(pd.Body)
	}
	if pd, ok := fr.x.e.cf.Pures[e.Name]; ok {
		if len(pd.Params) != len(e.Args) {
			specFail("%s: expected %d arguments", e.Name, len(pd.Params))
		}
		n := *se
		n.vars = map[string]sval{}
		n.bound = map[string]bool{}
		for k := range se.bound {
			if se.bound[k] {
				// outer bound variables stay visible only through arguments
			}
		}
		var argv []sval
		for i, p := range pd.Params {
			a := se.ev(e.Args[i])
			if pt := se.resolveType(p.Type); pt != nil {
				a.typ = pt
				a.sort = sortOf(pt)
			}
			n.vars[p.Name] = a
			n.bound[p.Name] = true
			argv = append(argv, a)
		}
		n.preferLocals = false
		isBool := strings.TrimSpace(pd.Ret) == "bool"
		savedRec, savedBad := c.getRec, c.getRecBad
		if isBool {
			c.getRec, c.getRecBad = map[string]Term{}, false
		}
		r := n.ev(pd.Body)
		if isBool {
			fp, bad := c.getRec, c.getRecBad
			c.getRec, c.getRecBad = savedRec, savedBad
			if savedRec != nil {
				for k, v := range fp {
					if prev, ok := savedRec[k]; ok && prev != v {
						c.getRecBad = true
					}
					savedRec[k] = v
				}
				if bad {
					c.getRecBad = true
				}
			}
			c.lastAtom = ""
			if !bad {
				if _, ok := fp["W"]; ok && !specMentions(pd.Body, "fresh") {
					// the allocation watermark is read only for side facts about loaded pointers
					fp2 := map[string]Term{}
					for k, v := range fp {
						if k != "W" {
							fp2[k] = v
						}
					}
					fp = fp2
				}
				atom := c.atomTerm(e.Name, argv, fp)
				c.lastAtom = atom
				if se.assuming && os.Getenv("GOVC_NOATOM") == "" {
					// the folded form accompanies every assumed instance (sound in any position: interpret the
					// function as the predicate's truth value, which depends on arguments and footprint only)
					r.t = and(r.t, atom)
				}
			}
		}
		if rt := strings.TrimSpace(pd.Ret); rt != "int" && rt != "bool" {
			if t := se.resolveType(rt); t != nil {
				r.typ = t
			}
		}
		_ = c
		return r
	}
	specFail("unknown spec function %s", e.Name)
	return sval{}
}

// evalKeep evaluates in se.st, temporarily switching fr.cur.
func (se *specEnv) evalKeep(e *Spec) sval {
	saved := se.fr.cur
	se.fr.cur = se.st
	defer func() { se.fr.cur = saved }()
	return se.ev(e)
}

// ---------- entry points used by the executor ----------

func (fr *Frame) specEnvFor(st, old *State, vars map[string]sval, preferLocals bool) *specEnv {
	if vars == nil {
		vars = map[string]sval{}
	}
	return &specEnv{fr: fr, st: st, old: old, vars: vars, bound: map[string]bool{}, preferLocals: preferLocals}
}

func (fr *Frame) evalSpecBool(e *Spec, st, old *State, vars map[string]sval) Term {
	se := fr.specEnvFor(st, old, fr.mergeVars(vars), vars == nil)
	se.assuming = true
	return se.eval(e).t
}

func (fr *Frame) mergeVars(vars map[string]sval) map[string]sval {
	m := map[string]sval{}
	for k, v := range fr.params {
		m[k] = v
	}
	for k, v := range vars {
		m[k] = v
	}
	return m
}

// proveSpec emits one obligation for a (conjunct of a) specification expression,
// skolemising top-level universal quantifiers of the goal.
func (fr *Frame) proveSpec(kind, desc string, cl *Clause, e *Spec, st, old *State, vars map[string]sval) {
	se := fr.specEnvFor(st, old, fr.mergeVars(vars), vars == nil)
	fr.proveSpecEnv(kind, desc, cl, e, se)
}

// specMentions: the expression (transitively through predicate definitions) calls the builtin fn
func specMentions(e *Spec, fn string) bool {
	if e == nil {
		return false
	}
	if e.Op == "call" && e.Name == fn {
		return true
	}
	if e.Op == "call" && pureDefs != nil {
		if pd, ok := pureDefs[e.Name]; ok && specMentions(pd.Body, fn) {
			return true
		}
	}
	for _, a := range e.Args {
		if specMentions(a, fn) {
			return true
		}
	}
	return specMentions(e.Trig, fn)
}

// specUsesOld: the expression (transitively through predicate definitions) mentions old()/entry()
func specUsesOld(e *Spec) bool {
	if e == nil {
		return false
	}
	if e.Op == "call" && (e.Name == "old" || e.Name == "entry" || e.Name == "iter" || e.Name == "unchanged") {
		return true
	}
	if e.Op == "call" && pureDefs != nil {
		if pd, ok := pureDefs[e.Name]; ok && specUsesOld(pd.Body) {
			return true
		}
	}
	for _, a := range e.Args {
		if specUsesOld(a) {
			return true
		}
	}
	return specUsesOld(e.Trig)
}

// foldedObligation: one attempt per predicate instance (e.From) to prove it folded, see Ctx.getRec.
func (fr *Frame) foldedObligation(kind string, cl *Clause, from *Spec, se *specEnv) *Obligation {
	if fr.foldObls == nil {
		fr.foldObls = map[*Spec]*Obligation{}
	}
	if o, ok := fr.foldObls[from]; ok {
		return o
	}
	fr.foldObls[from] = nil
	c := fr.c()
	var hyps []Term
	cur := from
	n := *se
	n.vars = map[string]sval{}
	for k, v := range se.vars {
		n.vars[k] = v
	}
	n.bound = map[string]bool{}
	for k, v := range se.bound {
		n.bound[k] = v
	}
	n.assuming = false
	saved := fr.cur
	fr.cur = se.st
	defer func() { fr.cur = saved }()
	for {
		if cur.Op == "bin" && cur.Name == "==>" {
			n.goalHyp = true
			hyps = append(hyps, n.ev(cur.Args[0]).t)
			n.goalHyp = false
			cur = cur.Args[1]
			continue
		}
		if cur.Op == "forall" {
			sk := c.fresh("sk."+cur.Name, "Int")
			n.vars[cur.Name] = mathInt(sk)
			n.bound[cur.Name] = true
			lo := n.ev(cur.Args[0]).t
			hi := n.ev(cur.Args[1]).t
			hyps = append(hyps, and(le(lo, sk), lt(sk, hi)))
			cur = cur.Args[2]
			continue
		}
		break
	}
	if cur.Op != "call" || specUsesOld(cur) {
		return nil // two-state predicates are never assumed and proved over the same pair of states
	}
	c.lastAtom = ""
	{
		// only the folded form is wanted here: side facts of the expansion (byte ranges under quantifiers ...)
		// stay out of the context; the conjunct obligations generate their own, skolemised ones
		var dropped []Term
		savedQ := c.qfacts
		c.qfacts = &dropped
		n.ev(cur)
		c.qfacts = savedQ
	}
	atom := c.lastAtom
	if atom == "" {
		return nil
	}
	var props []string
	pos := ""
	if cl != nil {
		props = cl.Props
		pos = fmt.Sprintf("contract:%d", cl.Line)
	}
	after := kind != "post" && kind != "frame" && kind != "inv-pres" && kind != "assert" && kind != "hint"
	o := c.obligeX("fold", "folded "+kind+": "+from.String(), pos, props, se.st.reach, imp(and(hyps...), atom), nil, after)
	o.Atom = true
	fr.foldObls[from] = o
	return o
}

func (fr *Frame) proveSpecEnv(kind, desc string, cl *Clause, e *Spec, se *specEnv) {
	c := fr.c()
	var folded *Obligation
	if e.From != nil && kind != "hint" && os.Getenv("GOVC_NOATOM") == "" {
		folded = fr.foldedObligation(kind, cl, e.From, se)
	}
	var hyps []Term
	cur := e
	n := *se
	n.vars = map[string]sval{}
	for k, v := range se.vars {
		n.vars[k] = v
	}
	n.bound = map[string]bool{}
	for k, v := range se.bound {
		n.bound[k] = v
	}
	saved := fr.cur
	fr.cur = se.st
	defer func() { fr.cur = saved }()
	for {
		if cur.Op == "bin" && cur.Name == "==>" {
			n.goalHyp = true
			hyps = append(hyps, n.ev(cur.Args[0]).t)
			n.goalHyp = false
			cur = cur.Args[1]
			continue
		}
		if cur.Op == "forall" {
			sk := c.fresh("sk."+cur.Name, "Int")
			n.vars[cur.Name] = mathInt(sk)
			n.bound[cur.Name] = true
			lo := n.ev(cur.Args[0]).t
			hi := n.ev(cur.Args[1]).t
			hyps = append(hyps, and(le(lo, sk), lt(sk, hi)))
			cur = cur.Args[2]
			continue
		}
		break
	}
	goal := n.ev(cur).t
	var props []string
	pos := ""
	if cl != nil {
		props = cl.Props
		pos = fmt.Sprintf("contract:%d", cl.Line)
	}
	reach := se.st.reach
	if kind == "hint" {
		c.obligeX(kind, desc, pos, props, reach, imp(and(hyps...), goal), nil, false)
		// the proved hint (with its quantifiers) is available downstream
		sa := *se
		sa.assuming = true
		full := sa.ev(e).t
		c.assume(imp(reach, full))
		return
	}
	o := c.oblige(kind, desc, pos, props, reach, imp(and(hyps...), goal))
	o.subsumedBy = folded
}
