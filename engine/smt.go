package main

// SMT context: an ordered list of items (declarations, definitions, assumptions)
// plus obligations that each see a prefix of the items.

import (
	"runtime"
	"bytes"
	"context"
	"fmt"
	"os"
	"os/exec"
	"path/filepath"
	"sort"
	"strings"
	"sync"
	"time"
)

type Term = string

const prelude = `(set-option :produce-models true)
(set-logic ALL)
(declare-datatypes ((Slice 0)) (((mk-slice (s-reg Int) (s-off Int) (s-len Int) (s-cap Int)))))
(declare-datatypes ((Ptr 0)) (((mk-ptr (p-reg Int) (p-off Int)))))
(define-fun nilslice () Slice (mk-slice 0 0 0 0))
(define-fun nilptr () Ptr (mk-ptr 0 0))
(declare-fun byteof (Int Int) Int)
(declare-fun nlmul (Int Int) Int)
(declare-fun streq (Slice Slice) Bool)
(declare-fun elemref (Int Int) Int)
(declare-fun elemref_reg (Int) Int)
(declare-fun elemref_idx (Int) Int)
(define-fun wrapu ((x Int) (m Int)) Int (mod x m))
(define-fun wraps ((x Int) (h Int)) Int (- (mod (+ x h) (* 2 h)) h))
(define-fun tdiv ((a Int) (b Int)) Int (ite (>= a 0) (div a b) (- (div (- a) b))))
(define-fun tmod ((a Int) (b Int)) Int (ite (>= a 0) (mod a b) (- (mod (- a) b))))
(define-fun rd1 ((m (Array Int Int)) (o Int)) Int (select m o))
(define-fun rd2 ((m (Array Int Int)) (o Int)) Int (+ (select m o) (* 256 (select m (+ o 1)))))
(define-fun rd4 ((m (Array Int Int)) (o Int)) Int (+ (select m o) (* 256 (select m (+ o 1))) (* 65536 (select m (+ o 2))) (* 16777216 (select m (+ o 3)))))
(define-fun rd8 ((m (Array Int Int)) (o Int)) Int (+ (rd4 m o) (* 4294967296 (rd4 m (+ o 4)))))
(define-fun wr1 ((m (Array Int Int)) (o Int) (v Int)) (Array Int Int) (store m o v))
(define-fun wr2 ((m (Array Int Int)) (o Int) (v Int)) (Array Int Int) (store (store m o (byteof v 0)) (+ o 1) (byteof v 1)))
(define-fun wr4 ((m (Array Int Int)) (o Int) (v Int)) (Array Int Int) (store (store (store (store m o (byteof v 0)) (+ o 1) (byteof v 1)) (+ o 2) (byteof v 2)) (+ o 3) (byteof v 3)))
(define-fun wr8 ((m (Array Int Int)) (o Int) (v Int)) (Array Int Int) (store (store (store (store (store (store (store (store m o (byteof v 0)) (+ o 1) (byteof v 1)) (+ o 2) (byteof v 2)) (+ o 3) (byteof v 3)) (+ o 4) (byteof v 4)) (+ o 5) (byteof v 5)) (+ o 6) (byteof v 6)) (+ o 7) (byteof v 7)))
(define-fun be2 ((m (Array Int Int)) (o Int)) Int (+ (* 256 (select m o)) (select m (+ o 1))))
(define-fun be4 ((m (Array Int Int)) (o Int)) Int (+ (* 16777216 (select m o)) (* 65536 (select m (+ o 1))) (* 256 (select m (+ o 2))) (select m (+ o 3))))
(define-fun be8 ((m (Array Int Int)) (o Int)) Int (+ (* 4294967296 (be4 m o)) (be4 m (+ o 4))))
(define-fun bewr2 ((m (Array Int Int)) (o Int) (v Int)) (Array Int Int) (store (store m o (byteof v 1)) (+ o 1) (byteof v 0)))
(define-fun bewr4 ((m (Array Int Int)) (o Int) (v Int)) (Array Int Int) (store (store (store (store m o (byteof v 3)) (+ o 1) (byteof v 2)) (+ o 2) (byteof v 1)) (+ o 3) (byteof v 0)))
(define-fun bewr8 ((m (Array Int Int)) (o Int) (v Int)) (Array Int Int) (store (store (store (store (store (store (store (store m o (byteof v 7)) (+ o 1) (byteof v 6)) (+ o 2) (byteof v 5)) (+ o 3) (byteof v 4)) (+ o 4) (byteof v 3)) (+ o 5) (byteof v 2)) (+ o 6) (byteof v 1)) (+ o 7) (byteof v 0)))
(define-fun bytes2 ((v Int)) Bool (and (<= 0 (byteof v 0) 255) (<= 0 (byteof v 1) 255) (= v (+ (byteof v 0) (* 256 (byteof v 1))))))
(define-fun bytes4 ((v Int)) Bool (and (<= 0 (byteof v 0) 255) (<= 0 (byteof v 1) 255) (<= 0 (byteof v 2) 255) (<= 0 (byteof v 3) 255) (= v (+ (byteof v 0) (* 256 (byteof v 1)) (* 65536 (byteof v 2)) (* 16777216 (byteof v 3))))))
(define-fun bytes8 ((v Int)) Bool (and (<= 0 (byteof v 0) 255) (<= 0 (byteof v 1) 255) (<= 0 (byteof v 2) 255) (<= 0 (byteof v 3) 255) (<= 0 (byteof v 4) 255) (<= 0 (byteof v 5) 255) (<= 0 (byteof v 6) 255) (<= 0 (byteof v 7) 255) (= v (+ (byteof v 0) (* 256 (byteof v 1)) (* 65536 (byteof v 2)) (* 16777216 (byteof v 3)) (* 4294967296 (byteof v 4)) (* 1099511627776 (byteof v 5)) (* 281474976710656 (byteof v 6)) (* 72057594037927936 (byteof v 7))))))
`

type Obligation struct {
	ID     string   `json:"id"`
	Func   string   `json:"func"`
	Kind   string   `json:"kind"`
	Desc   string   `json:"desc"`
	Pos    string   `json:"pos"`
	Props  []string `json:"props,omitempty"`
	prefix int
	goal   Term
	extra  []string // extra items only for this obligation (e.g. skolem constants)
	// MustFail marks a vacuity guard: it is expected NOT to be provable.
	MustFail bool `json:"must_fail,omitempty"`
	// Atom: an attempt to prove a whole predicate instance folded; when it succeeds the obligations for the
	// predicate's conjuncts (subsumedBy == this) are discharged by it. Never counted or reported itself.
	Atom       bool `json:"-"`
	subsumedBy *Obligation
	// results
	Status  string            `json:"status"`
	Solver  string            `json:"solver"`
	Seconds float64           `json:"seconds"`
	Model   map[string]string `json:"model,omitempty"`
	Raw     string            `json:"raw,omitempty"`
	inputs  []string          // constants whose values we want in a model
	Bytes   int               `json:"smt_bytes"`
}

type Ctx struct {
	fn            string
	items         []string
	obls          []*Obligation
	n             int
	declared      map[string]string // symbol -> sort
	facts         map[string]bool   // dedupe ground facts
	inputs        []string
	sliceInputs   []string        // byte-slice parameters whose leading bytes are requested in models
	notes         map[string]bool // abstraction notes
	kindCnt       map[string]int
	weak          map[int]bool     // items that are only included in the second solving attempt (expensive facts)
	instantiators []func(idx Term) // assumed universal facts, instantiated at every index the code uses
	instantiated  map[string]bool
	onHavoc       func(st *State) // re-assume rely predicates after unknown code ran
	inlineDepth   int             // >0 while evaluating under a quantifier: no global definitions
	qfacts        *[]Term         // collects facts while under a quantifier
	// folded predicates: while a bool predicate of the contract language is expanded, getRec records the state
	// components it reads (its footprint); the predicate instance is then also represented by an application of an
	// uninterpreted function to its arguments and footprint ("atom"), see specEnv.call.
	getRec    map[string]Term
	getRecBad bool
	atomFuns  map[string]string
	verTokens map[string]string
	lastAtom  Term
}

func (c *Ctx) assumeRaw(item string) { c.items = append(c.items, item) }

func (c *Ctx) verToken(t Term) Term {
	if c.verTokens == nil {
		c.verTokens = map[string]string{}
	}
	if v, ok := c.verTokens[t]; ok {
		return v
	}
	v := fmt.Sprintf("ver!%d", len(c.verTokens))
	c.verTokens[t] = v
	c.assumeRaw(fmt.Sprintf("(declare-const %s Int)", v))
	return v
}

// atomTerm: the folded form of predicate instance name(args) whose expansion read exactly the components fp.
func (c *Ctx) atomTerm(name string, args []sval, fp map[string]Term) Term {
	var names []string
	for n := range fp {
		names = append(names, n)
	}
	sort.Strings(names)
	var sorts []string
	var ts []Term
	for _, a := range args {
		so := a.sort
		if so == "" {
			so = "Int"
		}
		sorts = append(sorts, so)
		ts = append(ts, a.t)
	}
	for _, n := range names {
		// a footprint component is represented by a version token (one unconstrained integer constant per distinct
		// component term): two instances match when they read syntactically the same component versions. Passing
		// the arrays themselves makes the solvers reason about extensional equality of every pair of heap versions.
		sorts = append(sorts, "Int")
		ts = append(ts, c.verToken(fp[n]))
	}
	sig := name + "(" + strings.Join(sorts, " ") + ")" + strings.Join(names, ",")
	if c.atomFuns == nil {
		c.atomFuns = map[string]string{}
	}
	fn, ok := c.atomFuns[sig]
	if !ok {
		fn = fmt.Sprintf("P!%s!%d", name, len(c.atomFuns))
		c.atomFuns[sig] = fn
		c.assumeRaw(fmt.Sprintf("(declare-fun %s (%s) Bool)", fn, strings.Join(sorts, " ")))
	}
	if len(ts) == 0 {
		return fn
	}
	return app(fn, ts...)
}

func newCtx(fn string) *Ctx {
	return &Ctx{fn: fn, declared: map[string]string{}, facts: map[string]bool{}, notes: map[string]bool{}, kindCnt: map[string]int{}}
}

func sym(s string) string {
	ok := true
	for _, c := range s {
		if !(c >= 'a' && c <= 'z' || c >= 'A' && c <= 'Z' || c >= '0' && c <= '9' || c == '_' || c == '.' || c == '!' || c == '$' || c == '@') {
			ok = false
			break
		}
	}
	if ok && len(s) > 0 && !(s[0] >= '0' && s[0] <= '9') {
		return s
	}
	return "|" + strings.ReplaceAll(strings.ReplaceAll(s, "|", "!"), "\\", "!") + "|"
}

func (c *Ctx) fresh(prefix, sort string) Term {
	c.n++
	name := sym(fmt.Sprintf("%s!%d", prefix, c.n))
	c.items = append(c.items, fmt.Sprintf("(declare-const %s %s)", name, sort))
	c.declared[name] = sort
	return name
}

// declareNamed declares a constant with an exact name (once).
func (c *Ctx) declareNamed(name, sort string) Term {
	name = sym(name)
	if _, ok := c.declared[name]; !ok {
		c.items = append(c.items, fmt.Sprintf("(declare-const %s %s)", name, sort))
		c.declared[name] = sort
	}
	return name
}

func (c *Ctx) define(prefix, sort string, body Term) Term {
	if c.inlineDepth > 0 {
		return body
	}
	// small bodies are not worth naming
	if len(body) < 24 && !strings.Contains(body, " ") {
		return body
	}
	c.n++
	name := sym(fmt.Sprintf("%s!%d", prefix, c.n))
	c.items = append(c.items, fmt.Sprintf("(define-fun %s () %s %s)", name, sort, body))
	c.declared[name] = sort
	return name
}

func (c *Ctx) assume(t Term) {
	if t == "true" {
		return
	}
	c.items = append(c.items, "(assert "+t+")")
}

// fact adds a ground fact once.
func (c *Ctx) fact(t Term) {
	if t == "true" || c.facts[t] {
		return
	}
	if c.qfacts != nil {
		*c.qfacts = append(*c.qfacts, t)
		return
	}
	c.facts[t] = true
	c.items = append(c.items, "(assert "+t+")")
}

// weakFact adds a ground fact that is sound but expensive for the solvers; it is left out of the
// first solving attempt and included when that attempt does not discharge the obligation.
func (c *Ctx) weakFact(t Term) {
	if t == "true" || c.facts[t] {
		return
	}
	if c.qfacts != nil {
		return
	}
	c.facts[t] = true
	if c.weak == nil {
		c.weak = map[int]bool{}
	}
	c.weak[len(c.items)] = true
	c.items = append(c.items, "(assert "+t+")")
}

// mul: product of two terms. A product of two non-constant terms is written with the uninterpreted
// symbol nlmul plus the ground fact nlmul(a,b) = a*b, so that equal operands give equal products by
// congruence (the nonlinear arithmetic engines do not do that reliably) while the arithmetic meaning is kept.
func (c *Ctx) mul(a, b Term) Term {
	if isNumeral(a) || isNumeral(b) {
		return app("*", a, b)
	}
	if b < a {
		a, b = b, a
	}
	t := app("nlmul", a, b)
	c.fact(eq(t, app("*", a, b)))
	return t
}

func isNumeral(t Term) bool {
	if strings.HasPrefix(t, "(- ") {
		t = strings.TrimSuffix(t[3:], ")")
	}
	if t == "" {
		return false
	}
	for _, ch := range t {
		if ch < '0' || ch > '9' {
			return false
		}
	}
	return true
}

func (c *Ctx) note(s string) { c.notes[s] = true }

func (c *Ctx) oblige(kind, desc, pos string, props []string, reach, cond Term) *Obligation {
	// facts established at the end of a path (postconditions, frames, invariant preservation)
	// are not needed downstream; keeping them out keeps later queries small.
	after := kind != "post" && kind != "frame" && kind != "inv-pres" && kind != "assert"
	return c.obligeX(kind, desc, pos, props, reach, cond, nil, after)
}

func (c *Ctx) obligeX(kind, desc, pos string, props []string, reach, cond Term, extra []string, assumeAfter bool) *Obligation {
	k := c.kindCnt[kind]
	c.kindCnt[kind] = k + 1
	o := &Obligation{ID: fmt.Sprintf("%s#%s#%d", c.fn, kind, k), Func: c.fn, Kind: kind, Desc: desc, Pos: pos, Props: props,
		prefix: len(c.items), goal: imp(reach, cond), extra: extra, inputs: c.inputs}
	c.obls = append(c.obls, o)
	if assumeAfter && len(extra) == 0 {
		c.assume(imp(reach, cond))
	}
	return o
}

func (c *Ctx) script(o *Obligation) string { return c.scriptW(o, true) }

func (c *Ctx) scriptW(o *Obligation, withWeak bool) string {
	var b bytes.Buffer
	b.WriteString(prelude)
	for i, it := range c.items[:o.prefix] {
		if !withWeak && c.weak[i] {
			continue
		}
		b.WriteString(it)
		b.WriteByte('\n')
	}
	for _, it := range o.extra {
		b.WriteString(it)
		b.WriteByte('\n')
	}
	b.WriteString("(assert (not " + o.goal + "))\n(check-sat)\n")
	if len(o.inputs) > 0 {
		ins := append([]string{}, o.inputs...)
		if _, ok := c.declared[sym("M@0")]; ok {
			for _, sl := range c.sliceInputs {
				for k := 0; k < 32; k++ {
					ins = append(ins, fmt.Sprintf("(select (select M@0 (s-reg %s)) (+ (s-off %s) %d))", sl, sl, k))
				}
			}
		}
		b.WriteString("(get-value (" + strings.Join(ins, " ") + "))\n")
	}
	return b.String()
}

// ---- term helpers ----

func and(ts ...Term) Term {
	var xs []string
	for _, t := range ts {
		if t == "true" || t == "" {
			continue
		}
		if t == "false" {
			return "false"
		}
		xs = append(xs, t)
	}
	switch len(xs) {
	case 0:
		return "true"
	case 1:
		return xs[0]
	}
	return "(and " + strings.Join(xs, " ") + ")"
}

func or(ts ...Term) Term {
	var xs []string
	for _, t := range ts {
		if t == "false" || t == "" {
			continue
		}
		if t == "true" {
			return "true"
		}
		xs = append(xs, t)
	}
	switch len(xs) {
	case 0:
		return "false"
	case 1:
		return xs[0]
	}
	return "(or " + strings.Join(xs, " ") + ")"
}

func not(t Term) Term {
	switch t {
	case "true":
		return "false"
	case "false":
		return "true"
	}
	if strings.HasPrefix(t, "(not ") && balanced(t[5:len(t)-1]) {
		return t[5 : len(t)-1]
	}
	return "(not " + t + ")"
}

func balanced(s string) bool {
	d := 0
	for i, c := range s {
		if c == '(' {
			d++
		} else if c == ')' {
			d--
			if d < 0 {
				return false
			}
			if d == 0 && i != len(s)-1 {
				return false
			}
		} else if d == 0 && c == ' ' {
			return false
		}
	}
	return d == 0
}

func imp(a, b Term) Term {
	if a == "true" {
		return b
	}
	if b == "true" {
		return "true"
	}
	if a == "false" {
		return "true"
	}
	return "(=> " + a + " " + b + ")"
}

func ite(c, a, b Term) Term {
	if c == "true" || a == b {
		return a
	}
	if c == "false" {
		return b
	}
	return "(ite " + c + " " + a + " " + b + ")"
}

func eq(a, b Term) Term {
	if a == b {
		return "true"
	}
	return "(= " + a + " " + b + ")"
}
func app(f string, args ...Term) Term { return "(" + f + " " + strings.Join(args, " ") + ")" }
func num(n int64) Term {
	if n < 0 {
		return fmt.Sprintf("(- %d)", -n)
	}
	return fmt.Sprintf("%d", n)
}
func add(a, b Term) Term {
	if b == "0" {
		return a
	}
	if a == "0" {
		return b
	}
	return "(+ " + a + " " + b + ")"
}
func sub(a, b Term) Term {
	if b == "0" {
		return a
	}
	return "(- " + a + " " + b + ")"
}
func le(a, b Term) Term { return "(<= " + a + " " + b + ")" }
func lt(a, b Term) Term { return "(< " + a + " " + b + ")" }

// ---- solver running ----

type solverSpec struct {
	name string
	argv func(file string, sec int) []string
}

var solvers = []solverSpec{
	{"z3-5.1.0", func(f string, s int) []string { return []string{"z3-new", fmt.Sprintf("-T:%d", s), f} }},
	{"z3-5.1.0 (ematching only)", func(f string, s int) []string {
		return []string{"z3-new", "smt.mbqi=false", fmt.Sprintf("-T:%d", s), f}
	}},
	{"cvc5-1.0.3", func(f string, s int) []string {
		return []string{"cvc5", "--lang=smt2", fmt.Sprintf("--tlimit=%d", s*1000), f}
	}},
	{"z3-4.8.12", func(f string, s int) []string { return []string{"z3", fmt.Sprintf("-T:%d", s), f} }},
}

type solveOut struct {
	status string
	raw    string
	secs   float64
	solver string
}

// cpuTokens bounds the number of solver processes running at once to the number of cores, so that a
// solver's wall-clock timeout measures its own work and not the contention with its competitors.
var cpuTokens = make(chan struct{}, maxInt(2, runtime.NumCPU()-1))

func maxInt(a, b int) int {
	if a > b {
		return a
	}
	return b
}

func runSolver(ctx context.Context, sp solverSpec, file string, sec int) solveOut {
	select {
	case cpuTokens <- struct{}{}:
		defer func() { <-cpuTokens }()
	case <-ctx.Done():
		return solveOut{"cancelled", "", 0, sp.name}
	}
	if ctx.Err() != nil {
		return solveOut{"cancelled", "", 0, sp.name}
	}
	t0 := time.Now()
	cctx, cancel := context.WithTimeout(ctx, time.Duration(sec+2)*time.Second)
	defer cancel()
	argv := append([]string{"nice", "-n", "15"}, sp.argv(file, sec)...)
	cmd := exec.CommandContext(cctx, argv[0], argv[1:]...)
	out, _ := cmd.CombinedOutput()
	secs := time.Since(t0).Seconds()
	s := string(out)
	for strings.HasPrefix(s, "WARNING") {
		// solver warnings (e.g. an unusable quantifier pattern) precede the answer
		if i := strings.Index(s, "\n"); i >= 0 {
			s = s[i+1:]
		} else {
			break
		}
	}
	first := strings.TrimSpace(strings.SplitN(s, "\n", 2)[0])
	st := "unknown"
	switch first {
	case "unsat", "sat":
		st = first
	case "timeout":
		st = "timeout"
	default:
		if cctx.Err() != nil {
			st = "timeout"
		} else if strings.Contains(first, "error") || strings.Contains(s, "(error") && !strings.HasPrefix(first, "unknown") {
			st = "error"
		}
	}
	return solveOut{st, s, secs, sp.name}
}

type solveStats struct {
	mu        sync.Mutex
	perSolver map[string]int
	seconds   float64
}

// batchSolve: stage 0. One incremental z3 process per chunk of obligations (push/pop), without the
// weak facts, 2 s per check. Only "unsat" answers are used; everything else goes to the per-obligation race.
func batchSolve(c *Ctx, obls []*Obligation, dir string, stats *solveStats) {
	const chunk = 24
	var wg sync.WaitGroup
	sem := globalSem
	for i := 0; i < len(obls); i += chunk {
		j := i + chunk
		if j > len(obls) {
			j = len(obls)
		}
		part := obls[i:j]
		wg.Add(1)
		sem <- struct{}{}
		go func(part []*Obligation) {
			defer wg.Done()
			defer func() { <-sem }()
			var b bytes.Buffer
			b.WriteString(prelude)
			b.WriteString("(set-option :timeout 2000)\n")
			pos := 0
			for _, o := range part {
				if len(o.extra) > 0 {
					continue
				}
				for ; pos < o.prefix; pos++ {
					if c.weak[pos] {
						continue
					}
					b.WriteString(c.items[pos])
					b.WriteByte('\n')
				}
				b.WriteString("(push)\n(assert (not " + o.goal + "))\n(check-sat)\n(pop)\n")
			}
			fileMu.Lock()
			fileSeq++
			seq := fileSeq
			fileMu.Unlock()
			file := filepath.Join(dir, fmt.Sprintf("b%d.smt2", seq))
			if err := os.WriteFile(file, b.Bytes(), 0o644); err != nil {
				return
			}
			defer os.Remove(file)
			cpuTokens <- struct{}{}
			defer func() { <-cpuTokens }()
			t0 := time.Now()
			ctx, cancel := context.WithTimeout(context.Background(), time.Duration(3*len(part)+10)*time.Second)
			defer cancel()
			out, _ := exec.CommandContext(ctx, "nice", "-n", "15", "z3-new", file).CombinedOutput()
			secs := time.Since(t0).Seconds()
			var lines []string
			for _, ln := range strings.Split(strings.TrimSpace(string(out)), "\n") {
				if !strings.HasPrefix(ln, "WARNING") {
					lines = append(lines, ln)
				}
			}
			k := 0
			n := 0
			for _, o := range part {
				if len(o.extra) > 0 {
					continue
				}
				if k >= len(lines) {
					break
				}
				ans := strings.TrimSpace(lines[k])
				k++
				if ans != "unsat" && ans != "sat" && ans != "unknown" {
					// error output desynchronises the answers: stop trusting this chunk
					break
				}
				if ans == "unsat" && !o.MustFail {
					o.Status, o.Solver = "unsat", "z3-5.1.0 (incremental)"
					n++
				}
			}
			if stats != nil && n > 0 {
				stats.mu.Lock()
				if stats.perSolver == nil {
					stats.perSolver = map[string]int{}
				}
				stats.perSolver["z3-5.1.0 (incremental)"] += n
				stats.seconds += secs
				stats.mu.Unlock()
				for _, o := range part {
					if o.Status == "unsat" && o.Solver == "z3-5.1.0 (incremental)" {
						o.Seconds = secs / float64(len(part))
					}
				}
			}
		}(part)
	}
	wg.Wait()
}

var globalSem = make(chan struct{}, 14)

// solveAll discharges all obligations of a context in parallel.
func solveAll(c *Ctx, obls []*Obligation, dir string, timeout int, par int, stats *solveStats) {
	// stage A: folded predicate instances (cheap congruence goals); a proved one discharges its conjuncts
	var atoms, rest []*Obligation
	for _, o := range obls {
		if o.Atom {
			atoms = append(atoms, o)
		} else {
			rest = append(rest, o)
		}
	}
	if len(atoms) > 0 {
		batchSolve(c, atoms, dir, stats)
		var wg sync.WaitGroup
		for _, o := range atoms {
			if o.Status == "unsat" {
				continue
			}
			wg.Add(1)
			go func(o *Obligation) {
				defer wg.Done()
				file := filepath.Join(dir, fmt.Sprintf("a%p.smt2", o))
				if os.WriteFile(file, []byte(c.scriptW(o, false)), 0o644) == nil {
					r := runSolver(context.Background(), solvers[0], file, 3)
					o.Status, o.Solver, o.Seconds = r.status, r.solver, r.secs
					os.Remove(file)
				}
			}(o)
		}
		wg.Wait()
		for _, o := range rest {
			if o.subsumedBy != nil && o.subsumedBy.Status == "unsat" && !o.MustFail {
				o.Status, o.Solver, o.Seconds = "unsat", "folded-predicate("+o.subsumedBy.Solver+")", 0
				stats.mu.Lock()
				if stats.perSolver == nil {
					stats.perSolver = map[string]int{}
				}
				stats.perSolver["folded-predicate"]++
				stats.mu.Unlock()
			}
		}
	}
	obls = rest
	batchSolve(c, obls, dir, stats)
	var wg sync.WaitGroup
	sem := globalSem
	for i, o := range obls {
		if o.Status == "unsat" {
			continue
		}
		wg.Add(1)
		sem <- struct{}{}
		go func(i int, o *Obligation) {
			defer wg.Done()
			defer func() { <-sem }()
			solveOne(c, o, dir, timeout, stats)
		}(i, o)
	}
	wg.Wait()
}

var fileSeq int64
var fileMu sync.Mutex

func solveOne(c *Ctx, o *Obligation, dir string, timeout int, stats *solveStats) {
	script := c.script(o)
	light := c.scriptW(o, false)
	o.Bytes = len(script)
	fileMu.Lock()
	fileSeq++
	seq := fileSeq
	fileMu.Unlock()
	file := filepath.Join(dir, fmt.Sprintf("o%d.smt2", seq))
	fileL := filepath.Join(dir, fmt.Sprintf("o%dl.smt2", seq))
	if err := os.WriteFile(file, []byte(script), 0o644); err != nil {
		o.Status = "error"
		o.Raw = err.Error()
		return
	}
	os.WriteFile(fileL, []byte(light), 0o644)
	defer os.Remove(file)
	defer os.Remove(fileL)
	bg := context.Background()
	if o.MustFail {
		// vacuity guard: only an "unsat" answer matters; a short single attempt on the full script is enough
		r := runSolver(bg, solvers[0], file, 3)
		o.Status, o.Solver, o.Seconds = r.status, r.solver, r.secs
		return
	}
	// stage 1: fast attempt with the newest z3, without the expensive (weak) facts
	quick := 2
	if timeout < quick {
		quick = timeout
	}
	hasWeak := len(light) != len(script)
	r := runSolver(bg, solvers[0], fileL, quick)
	total := r.secs
	if r.status == "sat" && hasWeak {
		// a model without the weak facts is not a counterexample
		r.status = "unknown"
	}
	if r.status != "unsat" && r.status != "sat" {
		// stage 2: race all solvers on the full script (and on the light one when it differs)
		ctx, cancel := context.WithCancel(bg)
		n := len(solvers)
		if hasWeak {
			n *= 2
		}
		ch := make(chan solveOut, n)
		for _, sp := range solvers {
			go func(sp solverSpec) { ch <- runSolver(ctx, sp, file, timeout) }(sp)
			if hasWeak {
				go func(sp solverSpec) {
					x := runSolver(ctx, sp, fileL, timeout)
					if x.status == "sat" {
						x.status = "unknown"
					}
					ch <- x
				}(sp)
			}
		}
		best := r
		for i := 0; i < n; i++ {
			x := <-ch
			total += x.secs
			if x.status == "unsat" {
				best = x
				break
			}
			if x.status == "sat" && best.status != "sat" {
				best = x
				// keep waiting: an unsat from another solver would be a disagreement worth seeing,
				// but sat with a model is definitive enough for reporting.
				break
			}
			if best.status == "error" || best.status == "" {
				best = x
			}
			if x.status == "timeout" && best.status == "unknown" {
				// keep unknown text but remember a timeout happened
			}
		}
		cancel()
		r = best
	}
	o.Status, o.Solver, o.Seconds = r.status, r.solver, total
	if r.status != "unsat" {
		raw := r.raw
		if len(raw) > 4000 {
			raw = raw[:4000]
		}
		o.Raw = raw
		if r.status == "sat" {
			o.Model = parseModel(r.raw)
		}
	}
	if stats != nil {
		stats.mu.Lock()
		if stats.perSolver == nil {
			stats.perSolver = map[string]int{}
		}
		if r.status == "unsat" && !o.MustFail {
			stats.perSolver[r.solver]++
		}
		stats.seconds += total
		stats.mu.Unlock()
	}
}

// parseModel parses "(get-value ...)" output: ((expr value) ...), where expr may itself be an s-expression
func parseModel(raw string) map[string]string {
	m := map[string]string{}
	i := strings.Index(raw, "((")
	if i < 0 {
		return m
	}
	s := raw[i+1:] // inside the outer list
	pos := 0
	skipWS := func() {
		for pos < len(s) && (s[pos] == ' ' || s[pos] == '\n' || s[pos] == '\t' || s[pos] == '\r') {
			pos++
		}
	}
	readSexp := func() string {
		skipWS()
		start := pos
		if pos >= len(s) {
			return ""
		}
		switch s[pos] {
		case '(':
			depth := 0
			for pos < len(s) {
				switch s[pos] {
				case '|':
					k := strings.IndexByte(s[pos+1:], '|')
					if k < 0 {
						pos = len(s)
						return s[start:]
					}
					pos += k + 1
				case '(':
					depth++
				case ')':
					depth--
					if depth == 0 {
						pos++
						return s[start:pos]
					}
				}
				pos++
			}
			return s[start:]
		case '|':
			k := strings.IndexByte(s[pos+1:], '|')
			if k < 0 {
				pos = len(s)
				return s[start:]
			}
			pos += k + 2
			return s[start:pos]
		}
		for pos < len(s) && s[pos] != ' ' && s[pos] != ')' && s[pos] != '\n' {
			pos++
		}
		return s[start:pos]
	}
	for {
		skipWS()
		if pos >= len(s) || s[pos] != '(' {
			return m
		}
		pos++ // open pair
		key := readSexp()
		val := readSexp()
		skipWS()
		if pos < len(s) && s[pos] == ')' {
			pos++
		}
		if key == "" {
			return m
		}
		m[key] = strings.Join(strings.Fields(val), " ")
	}
}

func sortedKeys(m map[string]bool) []string {
	var ks []string
	for k := range m {
		ks = append(ks, k)
	}
	sort.Strings(ks)
	return ks
}
