package main

import (
	"path/filepath"
	"os"
	"fmt"
	"go/constant"
	"go/token"
	"go/types"
	"sort"
	"strings"

	"golang.org/x/tools/go/ssa"
)

// Exec verifies one top-level function.
type Exec struct {
	e                *Engine
	c                *Ctx
	top              *ssa.Function
	frameSeq         int
	budget           int // remaining inlined instructions
	props            []string
	smoke            bool
	funcsUsedModular map[string]bool
	funcsInlined     map[string]bool
	funcsAbstracted  map[string]bool
	externs          map[string]bool
	lemmasUsed       map[string]bool
	id               int
	prop             string
}

type sval struct {
	t    Term
	typ  types.Type // nil for mathematical Int/Bool
	sort string
	addr *Addr
}

type Frame struct {
	foldObls     map[*Spec]*Obligation
	rgPoints     int
	rgTop        *Frame
	inStep       int
	x            *Exec
	fn           *ssa.Function
	id           int
	env          map[ssa.Value]Term
	tuples       map[ssa.Value][]Term
	allocRef     map[*ssa.Alloc]Term
	depth        int
	path         string
	contract     *Contract
	entry        *State
	cur          *State
	params       map[string]sval
	rets         []retInfo
	top          bool
	stack        []*ssa.Function
	loops        map[*ssa.BasicBlock]*loopInfo
	loopOrd      map[*ssa.BasicBlock]int
	dead         bool
	rangeComp    map[ssa.Value]string
	callCount    map[string]int
	block        *ssa.BasicBlock
	loopMods     map[*loopInfo][]locInfo
	loopW        map[*loopInfo]Term
	frameCaller  *Frame
	frameInstr   ssa.Instruction
	curInstr     ssa.Instruction
	loopEntry    map[*loopInfo]*State
	curLoopEntry *State
	curLoopIter  *State            // state at the start of the current iteration (iter(e) in loop hints / invariants)
	loopIter     map[*loopInfo]*State
	prop         string
}

type retInfo struct {
	st   *State
	vals []Term
}

type loopInfo struct {
	header *ssa.BasicBlock
	body   map[*ssa.BasicBlock]bool
	backs  []*ssa.BasicBlock
	ord    int
}

const (
	aCell = iota
	aField
	aMem
	aPtr
	aNone
)

type Addr struct {
	kind  int
	comp  string
	ref   Term
	idx   []Term
	reg   Term
	off   Term
	limit Term // absolute offset limit (off of slice start + cap) when known, for unsafe-width checks
	elem  types.Type
	ptr   Term
}

func (x *Exec) compSort(name, sort string) {
	if old, ok := compSorts[name]; ok && old != sort {
		// same field accessed with two sorts: keep first, note
		x.c.note("component " + name + " used with sorts " + old + " and " + sort)
		return
	}
	compSorts[name] = sort
}

func init() {
	compSorts["M"] = "(Array Int (Array Int Int))"
	compSorts["MS"] = "(Array Int (Array Int Slice))"
	compSorts["MR"] = "(Array Int (Array Int Int))"
	compSorts["MB"] = "(Array Int (Array Int Bool))"
	compSorts["MP"] = "(Array Int (Array Int Ptr))"
	compSorts["W"] = "Int"
	compSorts["MAP"] = "(Array Int (Array Int Int))"
	compSorts["MAPOK"] = "(Array Int (Array Int Bool))"
}

func (fr *Frame) c() *Ctx { return fr.x.c }

func (fr *Frame) posOf(in ssa.Instruction) string {
	p := in.Pos()
	if !p.IsValid() {
		// search nearby operands
		if v, ok := in.(ssa.Value); ok {
			_ = v
		}
	}
	s := fr.x.e.pos(p)
	if fr.path != "" {
		s = fr.path + " " + s
	}
	return s
}

func (fr *Frame) oblige(kind, desc string, in ssa.Instruction, cond Term) {
	pos := ""
	if in != nil {
		pos = fr.posOf(in)
	}
	fr.c().oblige(kind, desc, pos, nil, fr.cur.reach, cond)
}

// ---------- values ----------

func (fr *Frame) val(v ssa.Value) Term {
	if t, ok := fr.env[v]; ok {
		return t
	}
	switch c := v.(type) {
	case *ssa.Const:
		return fr.constTerm(c)
	case *ssa.Function:
		if id, ok := fr.x.e.funcID[c]; ok {
			return num(int64(id))
		}
		return fr.c().declareNamed("fn."+c.String(), "Int")
	case *ssa.Global:
		// address of a global used as a value: pointer to struct/array => symbolic ref
		t := fr.c().declareNamed("gaddr."+c.Name(), sortOf(c.Type()))
		if sortOf(c.Type()) == "Int" {
			fr.c().fact(lt("0", t))
		}
		return t
	case *ssa.Builtin:
		return "0"
	case *ssa.Parameter, *ssa.FreeVar:
		panic("unbound parameter " + v.Name() + " in " + fr.fn.String())
	}
	panic(fmt.Sprintf("no value for %s (%T) in %s", v.Name(), v, fr.fn))
}

func (fr *Frame) constTerm(c *ssa.Const) Term {
	if c.Value == nil {
		return zeroOf(c.Type())
	}
	switch {
	case isBool(c.Type()):
		if constant.BoolVal(c.Value) {
			return "true"
		}
		return "false"
	case isString(c.Type()):
		s := constant.StringVal(c.Value)
		if s == "" {
			return "nilslice"
		}
		id := fr.x.strLit(s)
		return fmt.Sprintf("(mk-slice %s 0 %d %d)", id, len(s), len(s))
	case isFloat(c.Type()):
		return fr.c().declareNamed("float."+c.Value.ExactString(), "Int")
	}
	if _, _, ok := intInfo(c.Type()); ok {
		s := c.Value.ExactString()
		if strings.HasPrefix(s, "-") {
			return "(- " + s[1:] + ")"
		}
		return s
	}
	return zeroOf(c.Type())
}

var strLits = map[string]int{}

func (x *Exec) strLit(s string) Term {
	id, ok := strLits[s]
	if !ok {
		id = len(strLits) + 1
		strLits[s] = id
	}
	t := x.c.declareNamed(fmt.Sprintf("strlit.%d", id), "Int")
	x.c.fact(lt(t, "0")) // literal regions are negative: never alias allocated regions
	x.c.fact(eq(t, num(int64(-id-1000))))
	return t
}

// fresh value of a Go type with its type facts
func (fr *Frame) freshVal(prefix string, t types.Type) Term {
	v := fr.c().fresh(prefix, sortOf(t))
	fr.typeFacts(t, v)
	return v
}

func (fr *Frame) typeFacts(t types.Type, v Term) {
	c := fr.c()
	switch sortOf(t) {
	case "Int":
		if _, _, ok := intInfo(t); ok {
			c.fact(rangeFact(t, v))
		} else {
			c.fact(le("0", v))
		}
	case "Slice":
		c.fact(sliceWF(v))
	}
}

// ---------- addresses ----------

func ptrElem(t types.Type) types.Type {
	if p, ok := t.Underlying().(*types.Pointer); ok {
		return p.Elem()
	}
	return nil
}

func (fr *Frame) cellName(a *ssa.Alloc) string {
	name := a.Comment
	if name == "" {
		name = a.Name()
	}
	return fmt.Sprintf("L.%d.%d.%s.%s", fr.x.id, fr.id, name, a.Name())
}

func isObjectType(t types.Type) bool {
	switch t.Underlying().(type) {
	case *types.Struct, *types.Array:
		return true
	}
	return false
}

func (fr *Frame) addrOf(v ssa.Value) Addr {
	e := fr.x.e
	switch a := v.(type) {
	case *ssa.Alloc:
		el := ptrElem(a.Type())
		if isObjectType(el) {
			ref, ok := fr.allocRef[a]
			if !ok {
				panic("alloc not executed: " + a.Name())
			}
			if _, isArr := el.Underlying().(*types.Array); isArr {
				return Addr{kind: aMem, reg: ref, off: "0", elem: el}
			}
			return Addr{kind: aNone, ref: ref, elem: el}
		}
		name := fr.cellName(a)
		fr.x.compSort(name, sortOf(el))
		return Addr{kind: aCell, comp: name, elem: el}
	case *ssa.Global:
		el := ptrElem(a.Type())
		name := "G." + a.Name()
		if a.Pkg != e.pkg {
			name = "G." + a.Pkg.Pkg.Name() + "." + a.Name()
		}
		if arr, isArr := el.Underlying().(*types.Array); isArr {
			reg := fr.c().declareNamed("greg."+a.Name(), "Int")
			fr.c().fact(lt(reg, "0"))
			fr.c().fact(eq(reg, num(int64(-500-len(a.Name())*7-int(a.Name()[0])))))
			_ = arr
			return Addr{kind: aMem, reg: reg, off: "0", elem: el}
		}
		fr.x.compSort(name, sortOf(el))
		return Addr{kind: aCell, comp: name, elem: el}
	case *ssa.FreeVar:
		// captured variable: pointer to a cell of the enclosing function; treat as an unknown cell
		el := ptrElem(a.Type())
		name := fmt.Sprintf("L.%d.0.free.%s.%s", fr.x.id, fr.fn.Name(), a.Name())
		fr.x.compSort(name, sortOf(el))
		if isObjectType(el) {
			return Addr{kind: aNone, ref: fr.val(v), elem: el}
		}
		return Addr{kind: aCell, comp: name, elem: el}
	case *ssa.FieldAddr:
		st := ptrElem(a.X.Type())
		fld := st.Underlying().(*types.Struct).Field(a.Field)
		base := fr.baseOf(a.X)
		comp := base.comp
		if comp == "" {
			comp = "F." + typeName(st, e.tp)
		}
		comp += "." + fld.Name()
		r := Addr{kind: aField, comp: comp, ref: base.ref, idx: base.idx, elem: fld.Type()}
		fr.x.compSort(comp, nestSort(sortOf(fld.Type()), len(base.idx)))
		return r
	case *ssa.IndexAddr:
		switch xt := a.X.Type().Underlying().(type) {
		case *types.Slice:
			s := fr.val(a.X)
			i := fr.val(a.Index)
			return Addr{kind: aMem, reg: app("s-reg", s), off: add(app("s-off", s), i), limit: add(app("s-off", s), app("s-cap", s)), elem: xt.Elem()}
		case *types.Pointer: // pointer to array
			arr := xt.Elem().Underlying().(*types.Array)
			i := fr.val(a.Index)
			if fa, ok := a.X.(*ssa.FieldAddr); ok {
				inner := fr.addrOf(fa)
				comp := inner.comp + "[]"
				idx := append(append([]Term{}, inner.idx...), i)
				fr.x.compSort(comp, nestSort(sortOf(arr.Elem()), len(idx)))
				return Addr{kind: aField, comp: comp, ref: inner.ref, idx: idx, elem: arr.Elem()}
			}
			inner := fr.addrOf(a.X)
			if inner.kind == aMem {
				return Addr{kind: aMem, reg: inner.reg, off: add(inner.off, i), limit: num(arr.Len()), elem: arr.Elem()}
			}
			reg := fr.val(a.X)
			return Addr{kind: aMem, reg: reg, off: i, limit: num(arr.Len()), elem: arr.Elem()}
		}
	case *ssa.Convert:
		// pointer reinterpretation through unsafe.Pointer
		in := fr.addrOf(a.X)
		el := ptrElem(a.Type())
		if el == nil { // to unsafe.Pointer
			return in
		}
		if in.kind == aMem {
			if bits, _, ok := intInfo(in.elem); ok && bits == 8 {
				if _, _, ok2 := intInfo(el); ok2 {
					return Addr{kind: aPtr, ptr: app("mk-ptr", in.reg, in.off), limit: in.limit, elem: el}
				}
			}
		}
		if in.kind == aPtr {
			in.elem = el
			return in
		}
		// reinterpretation of a field/cell: keep location, mark elem
		fr.c().note("unsafe reinterpretation of non-byte memory in " + fr.fn.Name())
		in.elem = el
		return in
	case *ssa.ChangeType:
		in := fr.addrOf(a.X)
		if el := ptrElem(a.Type()); el != nil {
			in.elem = el
		}
		return in
	}
	// generic pointer value
	el := ptrElem(v.Type())
	t := fr.val(v)
	if el != nil && isObjectType(el) {
		if _, isArr := el.Underlying().(*types.Array); isArr {
			return Addr{kind: aMem, reg: t, off: "0", elem: el}
		}
		return Addr{kind: aNone, ref: t, elem: el}
	}
	if sortOf(v.Type()) == "Ptr" {
		return Addr{kind: aPtr, ptr: t, elem: el}
	}
	return Addr{kind: aNone, ref: t, elem: el}
}

func nestSort(s string, n int) string {
	for i := 0; i < n; i++ {
		s = "(Array Int " + s + ")"
	}
	return "(Array Int " + s + ")"
}

type baseInfo struct {
	comp string
	ref  Term
	idx  []Term
}

// baseOf resolves the base object of a FieldAddr: (component prefix, ref, indices)
func (fr *Frame) baseOf(x ssa.Value) baseInfo {
	switch b := x.(type) {
	case *ssa.FieldAddr:
		// nested struct value field
		in := fr.addrOf(b)
		return baseInfo{in.comp, in.ref, in.idx}
	case *ssa.IndexAddr:
		in := fr.addrOf(b)
		if in.kind == aField {
			return baseInfo{in.comp, in.ref, in.idx}
		}
		if in.kind == aMem { // element of []struct
			r := app("elemref", in.reg, in.off)
			fr.c().fact(and(eq(app("elemref_reg", r), in.reg), eq(app("elemref_idx", r), in.off), lt(r, "0")))
			return baseInfo{"", r, nil}
		}
	case *ssa.Alloc:
		if ref, ok := fr.allocRef[b]; ok {
			return baseInfo{"", ref, nil}
		}
	}
	return baseInfo{"", fr.val(x), nil}
}

// ---------- loads and stores ----------

func (fr *Frame) selectComp(a Addr) Term {
	t := app("select", fr.cur.get(a.comp), a.ref)
	for _, i := range a.idx {
		t = app("select", t, i)
	}
	return t
}

func (fr *Frame) storeComp(a Addr, v Term) {
	arr := fr.cur.get(a.comp)
	if len(a.idx) == 0 {
		fr.cur.set(a.comp, fr.c().define("st."+shortName(a.comp), compSorts[a.comp], app("store", arr, a.ref, v)))
		return
	}
	// nested: store(arr, ref, store(select(arr,ref), i, v))
	inner := app("select", arr, a.ref)
	if len(a.idx) == 1 {
		fr.cur.set(a.comp, fr.c().define("st."+shortName(a.comp), compSorts[a.comp], app("store", arr, a.ref, app("store", inner, a.idx[0], v))))
		return
	}
	panic("deep nested array store unsupported: " + a.comp)
}

// memComp: memory is split by element kind; Go's type safety keeps byte arrays, arrays of
// slices/strings and arrays of other word-sized values (pointers, ints, funcs) in different objects.
func memComp(elem types.Type) string {
	if sortOf(elem) == "Slice" {
		return "MS"
	}
	if bits, _, ok := intInfo(elem); ok && bits == 8 {
		return "M"
	}
	if sortOf(elem) == "Bool" {
		return "MB"
	}
	if sortOf(elem) == "Ptr" {
		return "MP"
	}
	return "MR"
}

func widthOf(t types.Type) int {
	bits, _, ok := intInfo(t)
	if !ok {
		return 0
	}
	return bits / 8
}

func toUnsigned(t types.Type, v Term) Term {
	bits, signed, _ := intInfo(t)
	if !signed {
		return v
	}
	return ite(lt(v, "0"), add(v, pow2(bits)), v)
}
func fromUnsigned(t types.Type, v Term) Term {
	bits, signed, _ := intInfo(t)
	if !signed {
		return v
	}
	return ite(app(">=", v, pow2(bits-1)), sub(v, pow2(bits)), v)
}

func (fr *Frame) byteFacts(region Term, off Term, w int) {
	if w == 1 {
		fr.c().fact(app("<=", "0", app("select", region, off), "255"))
		return
	}
	// the composed word is in range (cheap); the per-byte facts are only used in the second attempt
	for i := 0; i < w; i++ {
		b := app("select", region, add(off, num(int64(i))))
		fr.c().weakFact(app("<=", "0", b, "255"))
	}
}

func (fr *Frame) load(a Addr, in ssa.Instruction) Term {
	if (a.kind == aMem || a.kind == aPtr) && in != nil {
		fr.interfere(in)
	}
	return fr.load0(a, in)
}

func (fr *Frame) load0(a Addr, in ssa.Instruction) Term {
	c := fr.c()
	switch a.kind {
	case aCell:
		return fr.cur.get(a.comp)
	case aField:
		t := c.define("ld", sortOf(a.elem), fr.selectComp(a))
		fr.loadFacts(a.elem, t)
		if fr.x.e.cf.NonNil[a.comp] {
			// object invariant: checked at every store to this field and at the end of every constructor
			c.fact(not(eq(t, zeroOf(a.elem))))
		}
		return t
	case aMem:
		if _, isStruct := a.elem.Underlying().(*types.Struct); isStruct {
			r := app("elemref", a.reg, a.off)
			c.fact(and(eq(app("elemref_reg", r), a.reg), eq(app("elemref_idx", r), a.off), lt(r, "0")))
			return fr.snapshotStruct(a.elem, r)
		}
		comp := memComp(a.elem)
		t := c.define("ld", sortOf(a.elem), app("select", app("select", fr.cur.get(comp), a.reg), a.off))
		if bits, _, ok := intInfo(a.elem); ok && bits == 8 {
			c.fact(app("<=", "0", t, "255"))
		} else {
			fr.loadFacts(a.elem, t)
		}
		return t
	case aPtr:
		w := widthOf(a.elem)
		if w == 0 {
			c.note("load through untyped pointer in " + fr.fn.Name())
			return fr.freshVal("ldp", a.elem)
		}
		reg := app("p-reg", a.ptr)
		off := app("p-off", a.ptr)
		region := app("select", fr.cur.get("M"), reg)
		if a.limit != "" && in != nil {
			fr.oblige("unsafe", fmt.Sprintf("%d-byte access stays inside the slice's capacity", w), in, le(add(off, num(int64(w))), a.limit))
		}
		fr.byteFacts(region, off, w)
		u := c.define("ldw", "Int", app(fmt.Sprintf("rd%d", w), region, off))
		return c.define("ldv", "Int", fromUnsigned(a.elem, u))
	case aNone:
		if a.elem != nil {
			if _, isStruct := a.elem.Underlying().(*types.Struct); isStruct {
				return fr.snapshotStruct(a.elem, a.ref)
			}
		}
	}
	c.note("unsupported load in " + fr.fn.Name())
	return fr.freshVal("ld?", a.elem)
}

func (fr *Frame) loadFacts(t types.Type, v Term) {
	fr.typeFacts(t, v)
	// allocation watermark: everything reachable is older than W
	switch sortOf(t) {
	case "Int":
		if _, _, ok := intInfo(t); !ok && !isBool(t) {
			fr.c().fact(lt(v, fr.cur.get("W")))
		}
	case "Slice":
		fr.c().fact(lt(app("s-reg", v), fr.cur.get("W")))
	case "Ptr":
		fr.c().fact(lt(app("p-reg", v), fr.cur.get("W")))
	}
}

func (fr *Frame) store(a Addr, v Term, vt types.Type, in ssa.Instruction) {
	if (a.kind == aMem || a.kind == aPtr) && in != nil && fr.rgOwner() != nil {
		fr.interfere(in)
		if fr.inStep == 0 {
			for _, cl := range fr.rgClauses("bystep") {
				if cl.Callee != "" || len(cl.Locs) == 0 {
					continue
				}
				// the store is covered by a step lemma when it writes inside the declared range while the lemma's
				// precondition holds: a w-byte store is w consecutive byte steps, each an instance of the lemma
				// (whose postcondition re-establishes its precondition), and the step relation is transitive.
				fr.stepByLemma(cl, in, "store")
				li := fr.evalLoc(cl.Locs[0], fr.cur, fr.loopVars(fr.cur))
				var reg, off Term
				w := 1
				if a.kind == aPtr {
					reg, off, w = app("p-reg", a.ptr), app("p-off", a.ptr), widthOf(a.elem)
				} else {
					reg, off = a.reg, a.off
				}
				pos := fr.x.e.prog.Fset.Position(in.Pos())
				fr.c().oblige("guarantee", fmt.Sprintf("store at %s:%d writes only inside %s (step lemma %s)", filepath.Base(pos.Filename), pos.Line, cl.Locs[0].String(), cl.Lemma), fmt.Sprintf("contract:%d", cl.Line), cl.Props, fr.cur.reach,
					and(eq(reg, li.reg), le(li.lo, off), le(add(off, num(int64(w))), li.hi)))
				fr.inStep++
				fr.store0(a, v, vt, in)
				fr.inStep--
				return
			}
		}
		fr.sharedWrite(in, "store", func() { fr.store0(a, v, vt, in) })
		return
	}
	fr.store0(a, v, vt, in)
}

func (fr *Frame) store0(a Addr, v Term, vt types.Type, in ssa.Instruction) {
	c := fr.c()
	switch a.kind {
	case aCell:
		fr.cur.set(a.comp, v)
		return
	case aField:
		if _, isStruct := a.elem.Underlying().(*types.Struct); isStruct && fr.isLocalStruct(a.elem) {
			fr.copyStruct(a.elem, v, baseInfo{a.comp, a.ref, a.idx})
			return
		}
		if fr.x.e.cf.NonNil[a.comp] && in != nil {
			fr.oblige("nonnil", "field "+a.comp+" is declared never-nil: stored value is non-nil", in, not(eq(v, zeroOf(a.elem))))
		}
		fr.storeComp(a, v)
		return
	case aMem:
		if st, isStruct := a.elem.Underlying().(*types.Struct); isStruct {
			_ = st
			r := app("elemref", a.reg, a.off)
			c.fact(and(eq(app("elemref_reg", r), a.reg), eq(app("elemref_idx", r), a.off), lt(r, "0")))
			fr.copyStruct(a.elem, v, baseInfo{"", r, nil})
			return
		}
		comp := memComp(a.elem)
		fr.checkLoopFrame(comp, a.reg, a.off, 1, in)
		m := fr.cur.get(comp)
		fr.cur.set(comp, c.define("st."+comp, compSorts[comp], app("store", m, a.reg, app("store", app("select", m, a.reg), a.off, v))))
		return
	case aPtr:
		w := widthOf(a.elem)
		if w == 0 {
			c.note("store through untyped pointer in " + fr.fn.Name())
			return
		}
		reg := app("p-reg", a.ptr)
		off := app("p-off", a.ptr)
		if a.limit != "" && in != nil {
			fr.oblige("unsafe", fmt.Sprintf("%d-byte access stays inside the slice's capacity", w), in, le(add(off, num(int64(w))), a.limit))
		}
		fr.checkLoopFrame("M", reg, off, w, in)
		u := c.define("stu", "Int", toUnsigned(a.elem, v))
		if w > 1 {
			c.fact(app(fmt.Sprintf("bytes%d", w), u))
		}
		m := fr.cur.get("M")
		fr.cur.set("M", c.define("st.M", compSorts["M"], app("store", m, reg, app(fmt.Sprintf("wr%d", w), app("select", m, reg), off, u))))
		return
	case aNone:
		if a.elem != nil {
			if _, isStruct := a.elem.Underlying().(*types.Struct); isStruct {
				fr.copyStruct(a.elem, v, baseInfo{"", a.ref, nil})
				return
			}
		}
	}
	c.note("unsupported store in " + fr.fn.Name())
}

func (fr *Frame) isLocalStruct(t types.Type) bool {
	n, ok := t.(*types.Named)
	if !ok {
		_, isS := t.Underlying().(*types.Struct)
		return isS
	}
	return n.Obj().Pkg() == fr.x.e.tp
}

// leafFields enumerates the scalar leaf components of a struct type.
type leaf struct {
	path string
	typ  types.Type
	arr  int // nesting depth of arrays (0 or 1)
}

func (fr *Frame) leafFields(t types.Type, prefix string, out *[]leaf, depth int) {
	st, ok := t.Underlying().(*types.Struct)
	if !ok {
		return
	}
	for i := 0; i < st.NumFields(); i++ {
		f := st.Field(i)
		p := prefix + "." + f.Name()
		if _, isS := f.Type().Underlying().(*types.Struct); isS && fr.isLocalStruct(f.Type()) && depth < 4 {
			fr.leafFields(f.Type(), p, out, depth+1)
			continue
		}
		if at, isA := f.Type().Underlying().(*types.Array); isA {
			if _, isS := at.Elem().Underlying().(*types.Struct); isS {
				continue // arrays of structs: accessed through [] components lazily
			}
			*out = append(*out, leaf{p + "[]", at.Elem(), 1})
			continue
		}
		*out = append(*out, leaf{p, f.Type(), 0})
	}
}

func (fr *Frame) structLeaves(t types.Type) []leaf {
	var out []leaf
	fr.leafFields(t, "F."+typeName(t, fr.x.e.tp), &out, 0)
	return out
}

// newObject allocates a fresh zeroed object of struct type t.
func (fr *Frame) newRef(prefix string) Term {
	c := fr.c()
	w := fr.cur.get("W")
	ref := c.define(prefix, "Int", w)
	c.fact(lt("0", ref))
	fr.cur.set("W", c.define("W", "Int", add(ref, "1")))
	return ref
}

func (fr *Frame) zeroStruct(t types.Type, base baseInfo) {
	if !fr.isLocalStruct(t) {
		return
	}
	root := "F." + typeName(t, fr.x.e.tp)
	if base.comp != "" {
		root = base.comp
	}
	var leaves []leaf
	fr.leafFields(t, root, &leaves, 0)
	for _, l := range leaves {
		if l.arr == 1 {
			fr.x.compSort(l.path, nestSort(sortOf(l.typ), len(base.idx)+1))
			if len(base.idx) == 0 {
				arr := fr.cur.get(l.path)
				fr.cur.set(l.path, fr.c().define("z", compSorts[l.path], app("store", arr, base.ref, constArray(sortOf(l.typ), zeroOf(l.typ)))))
			}
			continue
		}
		fr.x.compSort(l.path, nestSort(sortOf(l.typ), len(base.idx)))
		fr.storeComp(Addr{comp: l.path, ref: base.ref, idx: base.idx}, zeroOf(l.typ))
	}
}

// snapshotStruct copies the fields of the struct at ref into a fresh object (struct value).
func (fr *Frame) snapshotStruct(t types.Type, ref Term) Term {
	if !fr.isLocalStruct(t) {
		return fr.freshVal("sv", t)
	}
	nr := fr.newRef("sv")
	fr.copyStruct(t, ref, baseInfo{"", nr, nil})
	return nr
}

// copyStruct copies the struct value held at object src into the location dst.
func (fr *Frame) copyStruct(t types.Type, src Term, dst baseInfo) {
	if !fr.isLocalStruct(t) {
		fr.c().note("copy of external struct " + t.String())
		return
	}
	srcRoot := "F." + typeName(t, fr.x.e.tp)
	dstRoot := srcRoot
	if dst.comp != "" {
		dstRoot = dst.comp
	}
	var leaves []leaf
	fr.leafFields(t, "", &leaves, 0)
	for _, l := range leaves {
		sc, dc := srcRoot+l.path, dstRoot+l.path
		if l.arr == 1 {
			fr.x.compSort(sc, nestSort(sortOf(l.typ), 1))
			fr.x.compSort(dc, nestSort(sortOf(l.typ), len(dst.idx)+1))
			if len(dst.idx) == 0 {
				fr.cur.set(dc, fr.c().define("cp", compSorts[dc], app("store", fr.cur.get(dc), dst.ref, app("select", fr.cur.get(sc), src))))
			}
			continue
		}
		fr.x.compSort(sc, nestSort(sortOf(l.typ), 0))
		fr.x.compSort(dc, nestSort(sortOf(l.typ), len(dst.idx)))
		v := app("select", fr.cur.get(sc), src)
		fr.storeComp(Addr{comp: dc, ref: dst.ref, idx: dst.idx}, v)
	}
}

// ---------- CFG helpers ----------

func (fr *Frame) findLoops() {
	fr.loops = map[*ssa.BasicBlock]*loopInfo{}
	for _, b := range fr.fn.Blocks {
		for _, s := range b.Succs {
			if s.Dominates(b) {
				li := fr.loops[s]
				if li == nil {
					li = &loopInfo{header: s, body: map[*ssa.BasicBlock]bool{s: true}}
					fr.loops[s] = li
				}
				li.backs = append(li.backs, b)
				// natural loop: nodes reaching b without passing through s
				var stack []*ssa.BasicBlock
				if !li.body[b] {
					li.body[b] = true
					stack = append(stack, b)
				}
				for len(stack) > 0 {
					n := stack[len(stack)-1]
					stack = stack[:len(stack)-1]
					for _, p := range n.Preds {
						if !li.body[p] {
							li.body[p] = true
							stack = append(stack, p)
						}
					}
				}
			}
		}
	}
	var hs []*ssa.BasicBlock
	for h := range fr.loops {
		hs = append(hs, h)
	}
	sort.Slice(hs, func(i, j int) bool { return hs[i].Index < hs[j].Index })
	for i, h := range hs {
		fr.loops[h].ord = i
	}
}

func (fr *Frame) rpo() []*ssa.BasicBlock {
	seen := map[*ssa.BasicBlock]bool{}
	var post []*ssa.BasicBlock
	var dfs func(b *ssa.BasicBlock)
	dfs = func(b *ssa.BasicBlock) {
		seen[b] = true
		for _, s := range b.Succs {
			if s.Dominates(b) { // back edge
				continue
			}
			if !seen[s] {
				dfs(s)
			}
		}
		post = append(post, b)
	}
	dfs(fr.fn.Blocks[0])
	for i, j := 0, len(post)-1; i < j; i, j = i+1, j-1 {
		post[i], post[j] = post[j], post[i]
	}
	return post
}

type edgeKey struct{ from, to int }

// run executes the function body symbolically from state st.
func (fr *Frame) run(st *State) {
	fr.findLoops()
	order := fr.rpo()
	edges := map[edgeKey]*State{}
	for _, b := range order {
		var in *State
		if b.Index == 0 {
			in = st
		} else {
			var ins []parentRef
			for _, p := range b.Preds {
				if b.Dominates(p) && fr.loops[b] != nil { // back edge
					continue
				}
				if es, ok := edges[edgeKey{p.Index, b.Index}]; ok && es != nil {
					ins = append(ins, parentRef{es.reach, es})
				}
			}
			if len(ins) == 0 {
				continue // unreachable
			}
			in = joinStates(fr.c(), ins, fmt.Sprintf("%s.b%d", fr.fn.Name(), b.Index))
		}
		fr.cur = in
		fr.block = b
		if li := fr.loops[b]; li != nil {
			fr.enterLoop(li)
		}
		fr.loopGhostsAt(b)
		fr.dead = false
		for _, ins := range b.Instrs {
			fr.curInstr = ins
			fr.instr(ins)
			if fr.dead {
				break
			}
		}
		if fr.dead {
			continue
		}
		// successors
		switch t := b.Instrs[len(b.Instrs)-1].(type) {
		case *ssa.If:
			cond := fr.val(t.Cond)
			at := fr.cur // takeEdge replaces fr.cur when the edge is a back edge: both edges start from the state at the branch
			for k, s := range b.Succs {
				cnd := cond
				if k == 1 {
					cnd = not(cond)
				}
				es := at.clone()
				es.reach = fr.c().define("reach", "Bool", and(at.reach, cnd))
				fr.takeEdge(b, s, es, edges)
			}
			fr.cur = at
		case *ssa.Jump:
			es := fr.cur.clone()
			fr.takeEdge(b, b.Succs[0], es, edges)
		}
	}
}

func (fr *Frame) takeEdge(from, to *ssa.BasicBlock, es *State, edges map[edgeKey]*State) {
	if li := fr.loops[to]; li != nil && to.Dominates(from) {
		// back edge: invariant must be preserved
		fr.cur = es
		fr.checkInvariant(li, "inv-pres", "loop invariant preserved by the body")
		return
	}
	edges[edgeKey{from.Index, to.Index}] = es
}

// ---------- loops ----------

func (fr *Frame) loopClauses(li *loopInfo, kind string) []*Clause {
	var out []*Clause
	if fr.contract == nil {
		return nil
	}
	for _, cl := range fr.contract.Clauses {
		if cl.Kind == kind && cl.Loop == li.ord && fr.x.active(cl) {
			out = append(out, cl)
		}
	}
	return out
}

// active: a clause tagged with property ids only exists when one of those properties is being checked
func (x *Exec) active(cl *Clause) bool {
	if len(cl.Props) == 0 || x.prop == "" {
		return true
	}
	for _, p := range cl.Props {
		if p == x.prop {
			return true
		}
	}
	return false
}

// isStableParam: name is a parameter of the function that no instruction of the loop body assigns
func (fr *Frame) isStableParam(li *loopInfo, name string) bool {
	found := false
	for _, p := range fr.fn.Params {
		if p.Name() == name {
			found = true
		}
	}
	if !found {
		// a local variable of the function that the loop body never assigns is as good as a parameter
		for _, b := range fr.fn.Blocks {
			for _, in := range b.Instrs {
				if a, ok := in.(*ssa.Alloc); ok && a.Comment == name {
					found = true
				}
			}
		}
	}
	if !found {
		return false
	}
	for b := range li.body {
		for _, in := range b.Instrs {
			if s, ok := in.(*ssa.Store); ok {
				if a, ok := s.Addr.(*ssa.Alloc); ok && a.Comment == name {
					return false
				}
			}
		}
	}
	return true
}

func (fr *Frame) checkInvariant(li *loopInfo, kind, desc string) {
	if st, ok := fr.loopEntry[li]; ok {
		fr.curLoopEntry = st
	} else {
		fr.curLoopEntry = fr.cur
	}
	fr.curLoopIter = fr.loopIter[li]
	defer func() { fr.curLoopEntry = nil; fr.curLoopIter = nil }()
	for _, cl := range fr.loopClauses(li, "hint") {
		if fr.curLoopIter == nil && specMentions(cl.Expr, "iter") {
			continue // a hint about the iteration just executed: nothing to say on entry
		}
		for _, cj := range splitConj(cl.Expr) {
			fr.proveSpec("hint", fmt.Sprintf("proof hint before %s (loop %d): %s", desc, li.ord, cj.String()), cl, cj, fr.cur, fr.entry, nil)
		}
	}
	for _, cl := range fr.loopClauses(li, "invariant") {
		for _, cj := range splitConj(cl.Expr) {
			fr.proveSpec(kind, fmt.Sprintf("%s (loop %d): %s", desc, li.ord, cj.String()), cl, cj, fr.cur, fr.entry, nil)
		}
	}
}

// loopGhostsAt: `loop N ghost lhs := e` updates run when an iteration of loop N starts, i.e. at the top of the
// body block entered from the loop header.
func (fr *Frame) loopGhostsAt(b *ssa.BasicBlock) {
	if !fr.top || fr.contract == nil || len(fr.contract.LoopGhosts) == 0 {
		return
	}
	for h, li := range fr.loops {
		if !li.body[b] || b == h {
			continue
		}
		fromHeader := false
		for _, p := range b.Preds {
			if p == h {
				fromHeader = true
			}
		}
		if !fromHeader {
			continue
		}
		for _, lg := range fr.contract.LoopGhosts {
			if lg.Loop != li.ord || !fr.x.active(&Clause{Props: lg.AC.Props}) {
				continue
			}
			fr.cur = fr.cur.clone()
			se := fr.specEnvFor(fr.cur, fr.entry, fr.mergeVars(nil), true)
			v := se.eval(lg.AC.Expr)
			fr.assignGhost(lg.AC, se, v)
		}
	}
}

func (fr *Frame) enterLoop(li *loopInfo) {
	c := fr.c()
	// 1. invariant holds on entry
	fr.checkInvariant(li, "inv-entry", "loop invariant holds on entry")
	// 2. havoc everything the body may modify
	mods := &modSet{comps: map[string]bool{}}
	gmods := map[string][]*Spec{} // ghost field component -> base objects of the ghost assignments in the body
	cells := map[string]types.Type{}
	for b := range li.body {
		for _, in := range b.Instrs {
			switch s := in.(type) {
			case *ssa.Store:
				if a, ok := s.Addr.(*ssa.Alloc); ok {
					el := ptrElem(a.Type())
					if !isObjectType(el) {
						cells[fr.cellName(a)] = el
						continue
					}
				}
				if fa, ok := s.Addr.(*ssa.FieldAddr); ok {
					// writes to fields of local struct cells: component-level havoc
					_ = fa
				}
				fr.x.e.addStoreMod(mods, s.Addr)
			case *ssa.MapUpdate:
				mods.comps["MAP"] = true
				mods.comps["MAPOK"] = true
			case *ssa.Alloc:
				el := ptrElem(s.Type())
				if !isObjectType(el) {
					cells[fr.cellName(s)] = el
				} else {
					mods.comps["W"] = true
				}
			case ssa.CallInstruction:
				if cl, ok := s.(*ssa.Call); ok && fr.top && fr.contract != nil {
					for _, ac := range fr.contract.AtCalls {
						if !ac.AtReturn && !ac.Hint && strings.HasSuffix(calleeName(cl.Common()), ac.Callee) && fr.callOrdinal(cl, ac.Callee) == ac.N {
							base := ac.LHS
							if base != nil && base.Op == "index" {
								base = base.Args[0]
							}
							for _, g := range fr.contract.GhostVars {
								if base != nil && base.Op == "ident" && g.Name == base.Name {
									cells[fr.ghostCell(g.Name)] = nil
								}
							}
							if base != nil && base.Op == "sel" {
								for _, g := range fr.x.e.cf.Ghost {
									if g.Field == base.Name {
										gmods["F."+g.Type+"."+g.Field] = append(gmods["F."+g.Type+"."+g.Field], base.Args[0])
									}
								}
							}
						}
					}
				}
				fr.callModsInto(mods, s.Common())
				if _, isGo := s.(*ssa.Go); !isGo {
					mods.comps["W"] = true
				}
			case *ssa.MakeSlice, *ssa.MakeMap, *ssa.MakeChan, *ssa.MakeClosure, *ssa.MakeInterface:
				mods.comps["W"] = true
			case *ssa.Select, *ssa.Send:
			}
		}
	}
	if fr.top && fr.contract != nil {
		for _, lg := range fr.contract.LoopGhosts {
			if lg.Loop != li.ord {
				continue
			}
			base := lg.AC.LHS
			if base != nil && base.Op == "index" {
				base = base.Args[0]
			}
			for _, g := range fr.contract.GhostVars {
				if base != nil && base.Op == "ident" && g.Name == base.Name {
					cells[fr.ghostCell(g.Name)] = nil
				}
			}
			if base != nil && base.Op == "sel" {
				for _, g := range fr.x.e.cf.Ghost {
					if g.Field == base.Name {
						gmods["F."+g.Type+"."+g.Field] = append(gmods["F."+g.Type+"."+g.Field], base.Args[0])
					}
				}
			}
		}
	}
	// ghost fields assigned in the body only through a parameter that the body never reassigns are havocked
	// at that one object (store(old, base, fresh)); every other ghost field written in the body entirely.
	gpoint := map[string]*Spec{}
	for n, bases := range gmods {
		pointwise := !mods.comps[n] && !mods.all && os.Getenv("GOVC_NOPOINT") == ""
		var b0 *Spec
		for _, bs := range bases {
			if bs.Op != "ident" || !fr.isStableParam(li, bs.Name) || (b0 != nil && b0.Name != bs.Name) {
				pointwise = false
			}
			b0 = bs
		}
		if pointwise && b0 != nil {
			gpoint[n] = b0
		} else {
			mods.comps[n] = true
		}
	}
	old := fr.cur
	if fr.loopEntry == nil {
		fr.loopEntry = map[*loopInfo]*State{}
	}
	fr.loopEntry[li] = old
	fr.curLoopEntry = old
	defer func() { fr.curLoopEntry = nil }()
	fr.cur = old.clone()
	if mods.all {
		fr.cur.havocAll(fmt.Sprintf("L%d.%d", fr.id, li.ord))
	}
	var names []string
	for n := range mods.comps {
		names = append(names, n)
	}
	sort.Strings(names)
	var lmods []locInfo
	for _, cl := range fr.loopClauses(li, "loopmodifies") {
		for _, loc := range cl.Locs {
			saved := fr.cur
			fr.cur = old
			lmods = append(lmods, fr.evalLoc(loc, old, fr.loopVars(old)))
			fr.cur = saved
		}
	}
	if len(lmods) > 0 {
		if fr.loopMods == nil {
			fr.loopMods = map[*loopInfo][]locInfo{}
			fr.loopW = map[*loopInfo]Term{}
		}
		fr.loopMods[li] = lmods
		fr.loopW[li] = old.get("W")
	}
	for _, n := range names {
		if _, ok := compSorts[n]; !ok {
			continue // never materialised
		}
		if len(lmods) > 0 && (n == "M" || n == "MS" || n == "MR" || n == "MB" || n == "MP") {
			// declared loop frame: only the listed ranges of memory may change (every store in the body is checked)
			m := old.get(n)
			cur := m
			for _, lm := range lmods {
				if lm.kind != "range" || lm.comp != n {
					continue
				}
				es := elemOfArraySort(compSorts[n])
				na := c.fresh("hv."+n, es)
				oldA := app("select", cur, lm.reg)
				c.assumeRaw(fmt.Sprintf("(assert (forall ((i Int)) (! (=> (or (< i %s) (>= i %s)) (= (select %s i) (select %s i))) :pattern ((select %s i)))))", lm.lo, lm.hi, na, oldA, na))
				cur = c.define("hv", compSorts[n], app("store", cur, lm.reg, na))
			}
			fr.cur.set(n, cur)
			continue
		}
		if n == "W" {
			nw := c.fresh("W", "Int")
			c.assume(le(old.get("W"), nw))
			fr.cur.set("W", nw)
			continue
		}
		fr.cur.set(n, c.fresh("hv."+shortName(n), compSorts[n]))
	}
	for n, bs := range gpoint {
		if _, ok := compSorts[n]; !ok {
			continue
		}
		se := fr.specEnvFor(old, fr.entry, fr.loopVars(old), true)
		base := se.eval(bs).t
		es := elemOfArraySort(compSorts[n])
		fr.cur.set(n, c.define("hvp", compSorts[n], app("store", old.get(n), base, c.fresh("hv."+shortName(n), es))))
	}
	var cns []string
	for n := range cells {
		cns = append(cns, n)
	}
	sort.Strings(cns)
	for _, n := range cns {
		if cells[n] == nil { // ghost cell: sort already registered
			fr.cur.set(n, c.fresh("hv."+shortName(n), compSorts[n]))
			continue
		}
		fr.x.compSort(n, sortOf(cells[n]))
		v := c.fresh("hv."+shortName(n), compSorts[n])
		fr.cur.set(n, v)
		fr.typeFacts(cells[n], v)
	}
	// 3. assume the invariant
	for _, cl := range fr.loopClauses(li, "invariant") {
		t := fr.evalSpecBool(cl.Expr, fr.cur, fr.entry, nil)
		c.assume(imp(fr.cur.reach, t))
	}
	for _, cl := range fr.loopClauses(li, "assume") {
		// assumed (unchecked) loop fact: reported with the function's assumptions
		fr.x.externs[fmt.Sprintf("ASSUMED (unchecked) at the head of loop %d of %s: %s", li.ord, fr.fn.Name(), cl.Text)] = true
		t := fr.evalSpecBool(cl.Expr, fr.cur, fr.entry, nil)
		c.assume(imp(fr.cur.reach, t))
	}
	// 4. instances of separately proved arithmetic lemmas
	for _, cl := range fr.loopClauses(li, "apply") {
		fr.applyLemma(cl, fr.cur, nil)
	}
	// 5. remember the state at the start of the iteration (iter(e))
	if fr.loopIter == nil {
		fr.loopIter = map[*loopInfo]*State{}
	}
	fr.loopIter[li] = fr.cur
	fr.cur = fr.cur.clone()
}

// callModsInto adds what a call may modify (contract modifies or inferred mod set).
func (fr *Frame) callModsInto(ms *modSet, call *ssa.CallCommon) {
	e := fr.x.e
	if call.IsInvoke() {
		ms.all = true
		return
	}
	switch cv := call.Value.(type) {
	case *ssa.Builtin:
		switch cv.Name() {
		case "copy", "append":
			if st, ok := call.Args[0].Type().Underlying().(*types.Slice); ok {
				ms.comps[memComp(st.Elem())] = true
			} else {
				ms.comps["M"] = true
			}
		case "delete":
			ms.comps["MAP"] = true
			ms.comps["MAPOK"] = true
		}
		return
	case *ssa.Function:
		if m, ok := e.modsets[cv]; ok {
			if ct := e.cf.Funcs[cv.RelString(e.tp)]; ct != nil && hasModifies(ct) {
				for _, n := range contractModComps(fr.x, ct, cv) {
					ms.comps[n] = true
				}
				return
			}
			ms.add(m)
			return
		}
		if strings.HasSuffix(cv.String(), "unix.Syscall") || strings.HasSuffix(cv.String(), "unix.RawSyscall") {
			if trap, ok := constIntOf(call.Args[0]); ok && (trap == 1 || trap == 20) {
				return // SYS_WRITE / SYS_WRITEV do not write user memory
			}
		}
		if eff := externEffect(cv); eff != nil {
			for _, k := range eff {
				if k == "*" {
					ms.all = true
				} else {
					ms.comps[k] = true
				}
			}
		}
		if cv.Pkg != nil && cv.Pkg.Pkg.Path() == "sync/atomic" && !strings.HasPrefix(cv.Name(), "Load") && len(call.Args) > 0 {
			e.addStoreMod(ms, call.Args[0])
		}
		return
	case *ssa.MakeClosure:
		if f, ok := cv.Fn.(*ssa.Function); ok {
			if m, ok := e.modsets[f]; ok {
				ms.add(m)
				return
			}
		}
	}
	ms.all = true
}

func hasModifies(ct *Contract) bool {
	for _, cl := range ct.Clauses {
		if cl.Kind == "modifies" {
			return true
		}
	}
	return false
}

// ---------- instructions ----------

// ---------- rely / guarantee (interference by other threads at every shared access) ----------
//
// A contract with `rely R` / `interference locs` / `guarantee G` clauses is verified under interference:
// before every access to shared memory (sync/atomic call, load or store through an unsafe pointer or into a
// slice element) and before every return, the locations `locs` are havocked and the two-state predicate R
// (old() = the state before the interference) is assumed - any number of steps of the other threads, R being
// reflexive and transitive. After every write to shared memory (and the ghost updates anchored at it) the
// two-state predicate G (old() = the state before the write) is proved: it is the other side's rely.

// rgOwner: the frame whose contract carries the rely/guarantee clauses (the function under verification);
// frames inlined into it (clause `inline f, g`) are interfered with at their shared accesses as well.
func (fr *Frame) rgOwner() *Frame {
	if fr.top {
		if fr.contract == nil {
			return nil
		}
		return fr
	}
	return fr.rgTop
}

func (fr *Frame) rgClauses(kind string) []*Clause {
	own := fr.rgOwner()
	if own == nil || own.contract == nil {
		return nil
	}
	var out []*Clause
	for _, cl := range own.contract.Clauses {
		if cl.Kind == kind && cl.Loop < 0 && fr.x.active(cl) {
			out = append(out, cl)
		}
	}
	return out
}

// rgInlined: the callee is to be inlined (not used through its sequential contract) in this rely/guarantee run
func (fr *Frame) rgInlined(name string) bool {
	for _, cl := range fr.rgClauses("inline") {
		for _, n := range strings.Split(cl.Text, ",") {
			if strings.TrimSpace(n) == name {
				return true
			}
		}
	}
	return false
}

func (fr *Frame) interfere(in ssa.Instruction) {
	relies := fr.rgClauses("rely")
	if len(relies) == 0 || fr.inStep > 0 {
		return
	}
	for _, cl := range relies {
		fr.x.externs[fmt.Sprintf("RELY in %s (interference by other threads at every shared access; it is the other side's proved guarantee): %s", fr.fn.Name(), cl.Text)] = true
	}
	own := fr.rgOwner()
	prev := fr.cur
	nxt := prev.clone()
	savedOwn := own.cur
	own.cur = prev
	vars := own.loopVars(prev)
	for _, cl := range fr.rgClauses("interference") {
		for _, loc := range cl.Locs {
			own.cur = prev
			own.havocLoc(loc, prev, nxt, vars)
		}
	}
	own.cur = nxt
	for _, cl := range relies {
		t := own.evalSpecBool(cl.Expr, nxt, prev, nil)
		fr.c().assume(imp(nxt.reach, t))
	}
	own.cur = savedOwn
	fr.cur = nxt
	own.rgPoints++
}

// sharedWrite runs f (one instruction that may write shared memory) and proves the guarantee for that step.
func (fr *Frame) sharedWrite(in ssa.Instruction, what string, f func()) {
	gs := fr.rgClauses("guarantee")
	if len(gs) == 0 || fr.inStep > 0 {
		fr.inStep++
		f()
		fr.inStep--
		return
	}
	before := fr.cur
	fr.cur = before.clone()
	fr.inStep++
	f()
	fr.inStep--
	if fr.dead {
		return
	}
	pos := fr.x.e.prog.Fset.Position(in.Pos())
	own := fr.rgOwner()
	for _, cl := range gs {
		for _, cj := range splitConj(cl.Expr) {
			own.proveSpec("guarantee", fmt.Sprintf("guarantee holds for the step %s at %s:%d: %s", what, filepath.Base(pos.Filename), pos.Line, cj.String()), cl, cj, fr.cur, before, nil)
		}
	}
}

// stepByLemma: the precondition of the step lemma holds in the state right before the step
func (fr *Frame) stepByLemma(cl *Clause, in ssa.Instruction, what string) {
	var vars map[string]sval
	if call, ok := in.(*ssa.Call); ok {
		vars = map[string]sval{}
		for i, a := range call.Common().Args {
			vars[fmt.Sprintf("a%d", i)] = sval{t: fr.val(a), typ: a.Type(), sort: sortOf(a.Type())}
		}
	}
	if fr.x.e.cf.Funcs[cl.Lemma] == nil {
		specFail("bystep: unknown lemma %s", cl.Lemma)
	}
	fr.x.externs[fmt.Sprintf("STEP LEMMA in %s: the guarantee of the step '%s' is discharged by lemma %s (verified separately; its precondition is proved before the step)", fr.fn.Name(), what, cl.Lemma)] = true
	fr.x.lemmasUsed["func:"+cl.Lemma] = true // verified in the same run (added to the function list if missing)
	pos := fr.x.e.prog.Fset.Position(in.Pos())
	for _, cj := range splitConj(cl.Expr) {
		se := fr.specEnvFor(fr.cur, fr.entry, fr.mergeVars(vars), true)
		for n := range vars {
			se.bound[n] = true
		}
		fr.proveSpecEnv("guarantee", fmt.Sprintf("precondition of step lemma %s holds before the step %s at %s:%d: %s", cl.Lemma, what, filepath.Base(pos.Filename), pos.Line, cj.String()), cl, cj, se)
	}
}

func isAtomicCall(in ssa.Instruction) bool {
	c, ok := in.(*ssa.Call)
	if !ok {
		return false
	}
	return strings.HasPrefix(calleeName(c.Common()), "sync/atomic.")
}

func (fr *Frame) instr(in ssa.Instruction) {
	if fr.rgOwner() != nil && len(fr.rgClauses("rely"))+len(fr.rgClauses("guarantee")) > 0 {
		if isAtomicCall(in) {
			fr.interfere(in)
			name := calleeName(in.(*ssa.Call).Common())
			if strings.HasPrefix(name, "sync/atomic.Load") {
				// an atomic read writes nothing: no guarantee to prove for this step
				fr.inStep++
				fr.instr0(in)
				fr.inStep--
				return
			}
			for _, cl := range fr.rgClauses("bystep") {
				call := in.(*ssa.Call)
				if cl.Callee != "" && strings.HasSuffix(name, cl.Callee) && fr.callOrdinal(call, cl.Callee) == cl.N {
					fr.stepByLemma(cl, in, name)
					fr.inStep++
					fr.instr0(in)
					fr.inStep--
					return
				}
			}
			fr.sharedWrite(in, name, func() { fr.instr0(in) })
			return
		}
		if _, ok := in.(*ssa.Return); ok && fr.top {
			fr.interfere(in)
		}
	}
	fr.instr0(in)
}

func (fr *Frame) instr0(in ssa.Instruction) {
	c := fr.c()
	switch s := in.(type) {
	case *ssa.DebugRef:
	case *ssa.Alloc:
		el := ptrElem(s.Type())
		if isObjectType(el) {
			ref := fr.newRef("obj." + s.Name())
			fr.allocRef[s] = ref
			fr.env[s] = ref
			if at, isArr := el.Underlying().(*types.Array); isArr {
				comp := memComp(at.Elem())
				m := fr.cur.get(comp)
				es := sortOf(at.Elem())
				fr.cur.set(comp, c.define("st."+comp, compSorts[comp], app("store", m, ref, constArray(es, zeroOf(at.Elem())))))
			} else {
				fr.zeroStruct(el, baseInfo{"", ref, nil})
			}
			return
		}
		name := fr.cellName(s)
		fr.x.compSort(name, sortOf(el))
		fr.cur.set(name, zeroOf(el))
		// the address of the cell as a value (only meaningful for unsafe tricks, which are abstracted)
		av := c.fresh("cellptr", sortOf(s.Type()))
		if sortOf(s.Type()) == "Ptr" {
			c.fact(not(eq(av, "nilptr")))
		} else {
			c.fact(lt("0", av))
		}
		fr.env[s] = av
	case *ssa.Store:
		a := fr.addrOf(s.Addr)
		fr.nilCheckAddr(s.Addr, in)
		fr.store(a, fr.val(s.Val), s.Val.Type(), in)
	case *ssa.UnOp:
		fr.unop(s)
	case *ssa.BinOp:
		fr.env[s] = fr.binop(s)
	case *ssa.FieldAddr:
		// nil check on the base pointer
		if _, isAlloc := s.X.(*ssa.Alloc); !isAlloc {
			if _, isFA := s.X.(*ssa.FieldAddr); !isFA {
				if _, isIA := s.X.(*ssa.IndexAddr); !isIA {
					fr.oblige("nil", "field access "+fieldName(s)+" on non-nil pointer", in, not(eq(fr.val(s.X), "0")))
				}
			}
		}
		// value of a field address (pointer) is materialised lazily
		a := fr.addrOf(s)
		fr.env[s] = fr.addrTerm(a, s.Type())
	case *ssa.Field:
		// field of a struct value (snapshot ref)
		st := s.X.Type()
		fld := st.Underlying().(*types.Struct).Field(s.Field)
		comp := "F." + typeName(st, fr.x.e.tp) + "." + fld.Name()
		fr.x.compSort(comp, nestSort(sortOf(fld.Type()), 0))
		t := c.define("fld", sortOf(fld.Type()), app("select", fr.cur.get(comp), fr.val(s.X)))
		fr.loadFacts(fld.Type(), t)
		fr.env[s] = t
	case *ssa.IndexAddr:
		fr.indexAddr(s)
	case *ssa.Index:
		fr.index(s)
	case *ssa.Slice:
		fr.slice(s)
	case *ssa.MakeSlice:
		fr.makeSlice(s)
	case *ssa.Convert:
		fr.convert(s)
	case *ssa.ChangeType:
		fr.env[s] = fr.val(s.X)
	case *ssa.ChangeInterface:
		fr.env[s] = fr.val(s.X)
	case *ssa.MakeInterface:
		fr.env[s] = fr.makeInterface(s)
	case *ssa.TypeAssert:
		fr.typeAssert(s)
	case *ssa.Extract:
		tp := fr.tuples[s.Tuple]
		if tp == nil {
			panic("extract from unknown tuple in " + fr.fn.Name())
		}
		fr.env[s] = tp[s.Index]
	case *ssa.Phi:
		var t Term
		for i := len(s.Edges) - 1; i >= 0; i-- {
			// choose by which predecessor edge state is among parents
			v := fr.val(s.Edges[i])
			if t == "" {
				t = v
				continue
			}
			// find the parent state coming from pred i
			cond := fr.predCond(s.Block(), i)
			t = ite(cond, v, t)
		}
		fr.env[s] = c.define("phi", sortOf(s.Type()), t)
	case *ssa.Call:
		if fr.top && fr.contract != nil && len(fr.contract.AtCalls) > 0 {
			fr.hintsAtCall(s)
		}
		res := fr.call(s, s.Common())
		if fr.top && fr.contract != nil && len(fr.contract.AtCalls) > 0 {
			fr.ghostAtCall(s, res)
		}
		if s.Type() != nil {
			if tup, ok := s.Type().(*types.Tuple); ok {
				if tup.Len() > 0 {
					fr.tuples[s] = res
				}
			} else if len(res) > 0 {
				fr.env[s] = res[0]
			}
		}
	case *ssa.Go:
		c.note("go statement: spawned goroutine abstracted (" + fr.fn.Name() + ")")
		for _, a := range s.Call.Args {
			_ = fr.val(a)
		}
	case *ssa.Defer:
		name := "dynamic"
		if f := s.Call.StaticCallee(); f != nil {
			name = f.String()
		}
		switch name {
		case "(*sync.Mutex).Unlock", "(*sync.RWMutex).Unlock", "(*sync.RWMutex).RUnlock", "(*os.File).Close", "(*sync.WaitGroup).Done", "(*time.Timer).Stop", "(net.Conn).Close":
		default:
			if s.Call.IsInvoke() {
				c.note("deferred interface call abstracted (no effect modelled): " + s.Call.Method.Name() + " in " + fr.fn.Name())
			} else {
				c.note("deferred call abstracted at RunDefers: " + name + " in " + fr.fn.Name())
			}
		}
	case *ssa.RunDefers:
		// deferred closures may write anything reachable: havoc if any dynamic defer exists
		for _, b := range fr.fn.Blocks {
			for _, i2 := range b.Instrs {
				if d, ok := i2.(*ssa.Defer); ok {
					if f := d.Call.StaticCallee(); f == nil || (f.Pkg == fr.x.e.pkg) || f.Parent() != nil {
						if !d.Call.IsInvoke() {
							fr.cur = fr.cur.clone()
							fr.cur.havocAll(fmt.Sprintf("defer%d", c.n))
							return
						}
					}
				}
			}
		}
	case *ssa.Return:
		var vals []Term
		for _, r := range s.Results {
			vals = append(vals, fr.val(r))
		}
		if fr.top {
			before := fr.cur
			fr.cur = before.clone()
			fr.ghostAtReturn(vals)
			if gs := fr.rgClauses("guarantee"); len(gs) > 0 && fr.contract != nil {
				hasRet := false
				for _, ac := range fr.contract.AtCalls {
					if ac.AtReturn && fr.x.active(&Clause{Props: ac.Props}) {
						hasRet = true
					}
				}
				if hasRet {
					// the ghost updates anchored at the return are a step of this thread as well
					pos := fr.x.e.prog.Fset.Position(s.Pos())
					for _, cl := range gs {
						for _, cj := range splitConj(cl.Expr) {
							fr.proveSpec("guarantee", fmt.Sprintf("guarantee holds for the ghost step at the return %s:%d: %s", filepath.Base(pos.Filename), pos.Line, cj.String()), cl, cj, fr.cur, before, nil)
						}
					}
				}
			}
		}
		fr.rets = append(fr.rets, retInfo{fr.cur, vals})
		fr.checkConstructed(s)
		if fr.top {
			fr.checkPost(s, vals)
		}
	case *ssa.Panic:
		fr.oblige("panic", "explicit panic is unreachable", in, "false")
		fr.dead = true
	case *ssa.If, *ssa.Jump:
	case *ssa.MakeClosure:
		f := s.Fn.(*ssa.Function)
		id := fr.x.e.funcID[f]
		t := c.fresh("clo", "Int")
		c.fact(lt("0", t))
		_ = id
		fr.env[s] = t
		fr.checkClosurePre(s, f)
	case *ssa.MakeMap:
		fr.env[s] = fr.newRef("map")
		// fresh map: no keys present
		fr.cur.set("MAPOK", c.define("st.MAPOK", compSorts["MAPOK"], app("store", fr.cur.get("MAPOK"), fr.env[s], constArray("Bool", "false"))))
	case *ssa.MakeChan:
		fr.env[s] = fr.newRef("chan")
	case *ssa.Lookup:
		fr.lookup(s)
	case *ssa.MapUpdate:
		m := fr.val(s.Map)
		fr.oblige("nilmap", "assignment to entry in non-nil map", in, not(eq(m, "0")))
		if comp := fr.mapFieldComp(s.Map); comp != "" && fr.x.e.cf.NonNilElems[comp] {
			fr.oblige("nonnil", "values stored in map "+comp+" are never nil", in, not(eq(fr.val(s.Value), zeroOf(s.Value.Type()))))
		}
		if sortOf(s.Key.Type()) == "Int" && sortOf(s.Value.Type()) == "Int" && !isString(s.Key.Type()) {
			k := fr.val(s.Key)
			mp, ok := fr.cur.get("MAP"), fr.cur.get("MAPOK")
			fr.cur.set("MAP", c.define("st.MAP", compSorts["MAP"], app("store", mp, m, app("store", app("select", mp, m), k, fr.val(s.Value)))))
			fr.cur.set("MAPOK", c.define("st.MAPOK", compSorts["MAPOK"], app("store", ok, m, app("store", app("select", ok, m), k, "true"))))
		} else {
			c.note("map update with non-integer key/value abstracted in " + fr.fn.Name())
		}
	case *ssa.Send:
		c.note("channel send abstracted in " + fr.fn.Name())
		if fr.top && fr.contract != nil {
			fr.ghostAtSend(s)
		}
	case *ssa.Select:
		c.note("select abstracted in " + fr.fn.Name())
		var res []Term
		tup := s.Type().(*types.Tuple)
		for i := 0; i < tup.Len(); i++ {
			res = append(res, fr.freshVal("sel", tup.At(i).Type()))
		}
		if !s.Blocking {
			// index -1 = default
			c.assume(and(le("(- 1)", res[0]), lt(res[0], num(int64(len(s.States))))))
		} else {
			c.assume(and(le("0", res[0]), lt(res[0], num(int64(len(s.States))))))
		}
		fr.tuples[s] = res
	case *ssa.Range:
		fr.env[s] = fr.c().fresh("range", "Int")
		if comp := fr.mapFieldComp(s.X); comp != "" {
			if fr.rangeComp == nil {
				fr.rangeComp = map[ssa.Value]string{}
			}
			fr.rangeComp[s] = comp
		}
		c.note("range over map/string abstracted in " + fr.fn.Name())
	case *ssa.Next:
		tup := s.Type().(*types.Tuple)
		var res []Term
		for i := 0; i < tup.Len(); i++ {
			if _, isInvalid := tup.At(i).Type().(*types.Basic); isInvalid && tup.At(i).Type().(*types.Basic).Kind() == types.Invalid {
				res = append(res, "0")
				continue
			}
			res = append(res, fr.freshVal("next", tup.At(i).Type()))
		}
		if comp := fr.rangeComp[s.Iter]; comp != "" && fr.x.e.cf.NonNilElems[comp] && len(res) == 3 {
			c.assume(imp(res[0], not(eq(res[2], zeroOf(tup.At(2).Type())))))
		}
		fr.tuples[s] = res
	default:
		panic(fmt.Sprintf("unsupported instruction %T in %s", in, fr.fn))
	}
}

func fieldName(s *ssa.FieldAddr) string {
	st := ptrElem(s.X.Type())
	return st.Underlying().(*types.Struct).Field(s.Field).Name()
}

// addrTerm materialises a pointer value for an address.
func (fr *Frame) addrTerm(a Addr, pt types.Type) Term {
	c := fr.c()
	switch sortOf(pt) {
	case "Ptr":
		switch a.kind {
		case aMem:
			return app("mk-ptr", a.reg, a.off)
		case aPtr:
			return a.ptr
		case aField:
			// pointer to a scalar field: symbolic, loads through it are resolved statically
			f := sym("fptr." + a.comp)
			if _, ok := c.declared[f]; !ok {
				c.items = append(c.items, fmt.Sprintf("(declare-fun %s (Int) Ptr)", f))
				c.declared[f] = "fun"
			}
			return app(f, a.ref)
		}
		return c.fresh("ptr", "Ptr")
	case "Int":
		switch a.kind {
		case aField:
			// pointer to an embedded struct/array field
			f := sym("sub." + a.comp)
			if _, ok := c.declared[f]; !ok {
				c.items = append(c.items, fmt.Sprintf("(declare-fun %s (Int) Int)", f))
				c.declared[f] = "fun"
			}
			t := app(f, a.ref)
			c.fact(lt("0", t))
			return t
		case aNone:
			return a.ref
		case aMem:
			if a.off == "0" {
				return a.reg
			}
			r := app("elemref", a.reg, a.off)
			c.fact(and(eq(app("elemref_reg", r), a.reg), eq(app("elemref_idx", r), a.off), lt(r, "0")))
			return r
		}
	}
	return c.fresh("addr", sortOf(pt))
}

func (fr *Frame) predCond(b *ssa.BasicBlock, i int) Term {
	// the join state's parents are in the order of non-back-edge preds with edges
	k := 0
	for j, p := range b.Preds {
		if b.Dominates(p) && fr.loops[b] != nil {
			continue
		}
		_ = p
		if j == i {
			if k < len(fr.cur.parents) {
				return fr.cur.parents[k].cond
			}
			return "true"
		}
		k++
	}
	return "true"
}

func (fr *Frame) nilCheckAddr(addr ssa.Value, in ssa.Instruction) {
	switch a := addr.(type) {
	case *ssa.Alloc, *ssa.Global, *ssa.FieldAddr, *ssa.IndexAddr, *ssa.FreeVar:
		return
	case *ssa.Convert, *ssa.ChangeType:
		_ = a
		return
	}
	t := fr.val(addr)
	switch sortOf(addr.Type()) {
	case "Ptr":
		fr.oblige("nil", "dereference of non-nil pointer", in, not(eq(t, "nilptr")))
	case "Int":
		fr.oblige("nil", "dereference of non-nil pointer", in, not(eq(t, "0")))
	}
}

func (fr *Frame) unop(s *ssa.UnOp) {
	c := fr.c()
	switch s.Op {
	case token.MUL:
		fr.nilCheckAddr(s.X, s)
		a := fr.addrOf(s.X)
		// immutable globals
		if g, ok := s.X.(*ssa.Global); ok && g.Pkg == fr.x.e.pkg {
			if id, ok := fr.x.e.errGlobals[g.Name()]; ok {
				fr.env[s] = num(int64(id))
				return
			}
			if _, ok := fr.x.e.tables[g.Name()]; ok {
				// immutable function table: known length, symbolic region
				reg := c.declareNamed("greg."+g.Name(), "Int")
				c.fact(eq(reg, num(int64(-500-len(g.Name())*7-int(g.Name()[0])))))
				n := num(fr.x.e.tableLen[g.Name()])
				fr.env[s] = app("mk-slice", reg, "0", n, n)
				return
			}
		}
		if g, ok := s.X.(*ssa.Global); ok && g.Pkg != fr.x.e.pkg {
			if types.Identical(ptrElem(g.Type()), types.Universe.Lookup("error").Type()) {
				// exported error values of other packages (io.EOF, ...) are non-nil and never reassigned (trusted)
				t := c.declareNamed("gerr."+g.Pkg.Pkg.Name()+"."+g.Name(), "Int")
				c.fact(lt("100000", t))
				fr.env[s] = t
				return
			}
		}
		// element of an immutable function table
		if ia, ok := s.X.(*ssa.IndexAddr); ok {
			if ld, ok := ia.X.(*ssa.UnOp); ok {
				if g, ok := ld.X.(*ssa.Global); ok && g.Pkg == fr.x.e.pkg {
					if tab, ok := fr.x.e.tables[g.Name()]; ok {
						idx := fr.val(ia.Index)
						t := Term("0")
						for _, cd := range sortedCands(tab) {
							t = ite(eq(idx, num(cd.key)), num(int64(fr.x.e.funcID[cd.fn])), t)
						}
						fr.env[s] = c.define("tabfn", "Int", t)
						return
					}
				}
			}
		}
		fr.env[s] = fr.load(a, s)
	case token.NOT:
		fr.env[s] = not(fr.val(s.X))
	case token.SUB:
		fr.env[s] = c.define("neg", "Int", wrapInt(s.Type(), app("-", fr.val(s.X))))
	case token.XOR:
		bits, signed, _ := intInfo(s.Type())
		if signed {
			fr.env[s] = c.define("cpl", "Int", sub(app("-", fr.val(s.X)), "1"))
		} else {
			fr.env[s] = c.define("cpl", "Int", sub(sub(pow2(bits), "1"), fr.val(s.X)))
		}
	case token.ARROW:
		c.note("channel receive abstracted in " + fr.fn.Name())
		if tup, ok := s.Type().(*types.Tuple); ok {
			fr.tuples[s] = []Term{fr.freshVal("recv", tup.At(0).Type()), c.fresh("recvok", "Bool")}
		} else {
			fr.env[s] = fr.freshVal("recv", s.Type())
		}
	default:
		panic("unop " + s.Op.String())
	}
}

func constIntOf(v ssa.Value) (int64, bool) {
	if c, ok := v.(*ssa.Const); ok && c.Value != nil && c.Value.Kind() == constant.Int {
		if n, ok := constant.Int64Val(c.Value); ok {
			return n, true
		}
		if u, ok := constant.Uint64Val(c.Value); ok && u < 1<<63 {
			return int64(u), true
		}
	}
	return 0, false
}

func bitOf(a Term, k int) Term { // 0/1 value of bit k of non-negative a
	return app("mod", app("div", a, pow2(k)), "2")
}

func (fr *Frame) binop(s *ssa.BinOp) Term {
	c := fr.c()
	x, y := fr.val(s.X), fr.val(s.Y)
	xt := s.X.Type()
	srt := sortOf(xt)
	switch s.Op {
	case token.EQL, token.NEQ:
		var t Term
		if isString(xt) {
			switch {
			case y == "nilslice":
				t = eq(app("s-len", x), "0")
			case x == "nilslice":
				t = eq(app("s-len", y), "0")
			default:
				t = or(eq(x, y), app("streq", x, y))
			}
		} else if srt == "Slice" {
			// only comparison with nil is legal
			if y == "nilslice" {
				t = eq(app("s-reg", x), "0")
			} else {
				t = eq(app("s-reg", y), "0")
			}
		} else {
			t = eq(x, y)
		}
		if s.Op == token.NEQ {
			t = not(t)
		}
		return c.define("cmp", "Bool", t)
	case token.LSS:
		if isString(xt) {
			return c.fresh("strlt", "Bool")
		}
		return c.define("cmp", "Bool", lt(x, y))
	case token.LEQ:
		return c.define("cmp", "Bool", le(x, y))
	case token.GTR:
		return c.define("cmp", "Bool", lt(y, x))
	case token.GEQ:
		return c.define("cmp", "Bool", le(y, x))
	case token.LAND:
		return and(x, y)
	case token.LOR:
		return or(x, y)
	}
	if isString(xt) && s.Op == token.ADD {
		r := c.fresh("strcat", "Slice")
		c.assume(and(sliceWF(r), eq(app("s-len", r), add(app("s-len", x), app("s-len", y)))))
		return r
	}
	if isFloat(xt) {
		return c.fresh("float", "Int")
	}
	bits, signed, ok := intInfo(s.Type())
	if !ok {
		c.note("binop on unsupported type " + s.Type().String())
		return fr.freshVal("bin", s.Type())
	}
	T := s.Type()
	switch s.Op {
	case token.ADD:
		return c.define("add", "Int", wrapInt(T, app("+", x, y)))
	case token.SUB:
		return c.define("sub", "Int", wrapInt(T, app("-", x, y)))
	case token.MUL:
		p := c.define("mulx", "Int", c.mul(x, y))
		return c.define("mul", "Int", wrapInt(T, p))
	case token.QUO, token.REM:
		fr.oblige("div", "division by non-zero", s, not(eq(y, "0")))
		var t Term
		if _, isConst := constIntOf(s.Y); isConst {
			switch {
			case s.Op == token.QUO && signed:
				t = app("tdiv", x, y)
			case s.Op == token.QUO:
				t = app("div", x, y)
			case signed:
				t = app("tmod", x, y)
			default:
				t = app("mod", x, y)
			}
			return c.define("quo", "Int", wrapInt(T, t))
		}
		// non-constant divisor: name quotient and remainder once and state Euclid's identity
		q := c.define("q", "Int", app("div", x, y))
		rm := c.define("rm", "Int", app("mod", x, y))
		yq := c.define("yq", "Int", c.mul(y, q))
		c.fact(imp(and(le("0", x), lt("0", y)), and(eq(x, add(yq, rm)), le("0", rm), lt(rm, y), le("0", q), le(q, x))))
		if !signed {
			if s.Op == token.QUO {
				t = q
			} else {
				t = rm
			}
		} else {
			pos := and(le("0", x), lt("0", y))
			if s.Op == token.QUO {
				g := app("tdiv", x, app("abs", y))
				t = ite(pos, q, ite(lt(y, "0"), app("-", g), g))
			} else {
				t = ite(pos, rm, app("tmod", x, app("abs", y)))
			}
		}
		r := c.define("quo", "Int", wrapInt(T, t))
		return r
	case token.AND, token.OR, token.XOR, token.AND_NOT:
		k, isK := constIntOf(s.Y)
		other := x
		if !isK {
			if k2, ok2 := constIntOf(s.X); ok2 && s.Op != token.AND_NOT {
				k, isK, other = k2, true, y
			}
		}
		if !isK || k < 0 || signed && false {
			c.note("bitwise operation with non-constant operand abstracted in " + fr.fn.Name())
			return fr.freshVal("bit", T)
		}
		u := other
		if signed {
			u = toUnsigned(T, other)
		}
		var setBits []int
		for b := 0; b < bits; b++ {
			if k&(1<<uint(b)) != 0 {
				setBits = append(setBits, b)
			}
		}
		var t Term
		switch s.Op {
		case token.AND:
			if k&(k+1) == 0 { // low mask
				t = app("mod", u, fmt.Sprint(k+1))
			} else {
				var parts []Term
				for _, b := range setBits {
					parts = append(parts, app("*", pow2(b), bitOf(u, b)))
				}
				t = "(+ 0 " + strings.Join(parts, " ") + ")"
			}
		case token.OR:
			parts := []Term{u}
			for _, b := range setBits {
				parts = append(parts, app("*", pow2(b), sub("1", bitOf(u, b))))
			}
			t = "(+ " + strings.Join(parts, " ") + ")"
		case token.XOR:
			parts := []Term{u}
			for _, b := range setBits {
				parts = append(parts, app("*", pow2(b), sub("1", app("*", "2", bitOf(u, b)))))
			}
			t = "(+ " + strings.Join(parts, " ") + ")"
		case token.AND_NOT:
			parts := []Term{u}
			for _, b := range setBits {
				parts = append(parts, app("-", app("*", pow2(b), bitOf(u, b))))
			}
			t = "(+ " + strings.Join(parts, " ") + ")"
		}
		if signed {
			t = fromUnsigned(T, t)
		}
		return c.define("bit", "Int", t)
	case token.SHL, token.SHR:
		k, isK := constIntOf(s.Y)
		if !isK || k < 0 || k > 63 {
			c.note("shift by non-constant abstracted in " + fr.fn.Name())
			return fr.freshVal("shift", T)
		}
		if s.Op == token.SHL {
			return c.define("shl", "Int", wrapInt(T, app("*", x, pow2(int(k)))))
		}
		return c.define("shr", "Int", app("div", x, pow2(int(k))))
	}
	panic("binop " + s.Op.String())
}

// instantiateAt: instantiate every assumed universal fact at an index the code is about to use
func (fr *Frame) instantiateAt(i Term) {
	c := fr.c()
	if len(c.instantiators) == 0 || isNumeral(i) && false {
		return
	}
	if c.instantiated == nil {
		c.instantiated = map[string]bool{}
	}
	for k, inst := range c.instantiators {
		key := fmt.Sprintf("%d|%s", k, i)
		if c.instantiated[key] {
			continue
		}
		c.instantiated[key] = true
		inst(i)
	}
}

func (fr *Frame) indexAddr(s *ssa.IndexAddr) {
	i := fr.val(s.Index)
	if _, isSlice := s.X.Type().Underlying().(*types.Slice); isSlice {
		fr.instantiateAt(i)
	}
	switch xt := s.X.Type().Underlying().(type) {
	case *types.Slice:
		sl := fr.val(s.X)
		fr.oblige("index", "index in range of slice length", s, and(le("0", i), lt(i, app("s-len", sl))))
	case *types.Pointer:
		arr := xt.Elem().Underlying().(*types.Array)
		switch s.X.(type) {
		case *ssa.Alloc, *ssa.Global, *ssa.FieldAddr:
		default:
			fr.oblige("nil", "index of non-nil array pointer", s, not(eq(fr.val(s.X), "0")))
		}
		fr.oblige("index", "index in range of array length", s, and(le("0", i), lt(i, num(arr.Len()))))
	}
	a := fr.addrOf(s)
	fr.env[s] = fr.addrTerm(a, s.Type())
}

func (fr *Frame) index(s *ssa.Index) {
	i := fr.val(s.Index)
	if isString(s.X.Type()) {
		str := fr.val(s.X)
		fr.oblige("index", "index in range of string length", s, and(le("0", i), lt(i, app("s-len", str))))
		t := fr.c().define("chr", "Int", app("select", app("select", fr.cur.get("M"), app("s-reg", str)), add(app("s-off", str), i)))
		fr.c().fact(app("<=", "0", t, "255"))
		fr.env[s] = t
		return
	}
	if at, ok := s.X.Type().Underlying().(*types.Array); ok {
		fr.oblige("index", "index in range of array length", s, and(le("0", i), lt(i, num(at.Len()))))
		comp := memComp(at.Elem())
		fr.env[s] = fr.c().define("aidx", sortOf(at.Elem()), app("select", app("select", fr.cur.get(comp), fr.val(s.X)), i))
		fr.loadFacts(at.Elem(), fr.env[s])
		return
	}
	fr.env[s] = fr.freshVal("idx", s.Type())
}

func (fr *Frame) slice(s *ssa.Slice) {
	c := fr.c()
	var reg, off, ln, cp Term
	isStr := false
	switch xt := s.X.Type().Underlying().(type) {
	case *types.Slice:
		x := fr.val(s.X)
		reg, off, ln, cp = app("s-reg", x), app("s-off", x), app("s-len", x), app("s-cap", x)
	case *types.Basic: // string
		x := fr.val(s.X)
		reg, off, ln, cp = app("s-reg", x), app("s-off", x), app("s-len", x), app("s-len", x)
		isStr = true
	case *types.Pointer:
		arr := xt.Elem().Underlying().(*types.Array)
		a := fr.addrOf(s.X)
		switch s.X.(type) {
		case *ssa.Alloc, *ssa.Global, *ssa.FieldAddr:
		default:
			fr.oblige("nil", "slice of non-nil array pointer", s, not(eq(fr.val(s.X), "0")))
		}
		if a.kind == aMem {
			reg, off = a.reg, a.off
		} else {
			c.note("slice of array field abstracted in " + fr.fn.Name())
			reg, off = fr.newRef("arr"), "0"
		}
		ln, cp = num(arr.Len()), num(arr.Len())
	}
	lo, hi, mx := Term("0"), ln, cp
	if s.Low != nil {
		lo = fr.val(s.Low)
	}
	if s.High != nil {
		hi = fr.val(s.High)
	}
	if s.Max != nil {
		mx = fr.val(s.Max)
	}
	bound := cp
	if isStr {
		bound = ln
	}
	fr.oblige("slice", "slice bounds 0 <= low <= high <= max <= cap", s, and(le("0", lo), le(lo, hi), le(hi, mx), le(mx, bound)))
	r := c.define("slc", "Slice", app("mk-slice", reg, add(off, lo), sub(hi, lo), sub(mx, lo)))
	if isStr {
		r = c.define("slc", "Slice", app("mk-slice", reg, add(off, lo), sub(hi, lo), sub(hi, lo)))
	}
	fr.env[s] = r
}

func (fr *Frame) makeSlice(s *ssa.MakeSlice) {
	c := fr.c()
	ln, cp := fr.val(s.Len), fr.val(s.Cap)
	el := s.Type().Underlying().(*types.Slice).Elem()
	maxElems := new(bigInt).quoPow2(48, elemSize(el))
	fr.oblige("make", "make: 0 <= len <= cap and cap within the address space", s, and(le("0", ln), le(ln, cp), le(cp, maxElems)))
	reg := fr.newRef("mk")
	comp := memComp(el)
	es := sortOf(el)
	m := fr.cur.get(comp)
	fr.cur.set(comp, c.define("st."+comp, compSorts[comp], app("store", m, reg, constArray(es, zeroOf(el)))))
	fr.env[s] = c.define("mks", "Slice", app("mk-slice", reg, "0", ln, cp))
}

func (fr *Frame) convert(s *ssa.Convert) {
	c := fr.c()
	from, to := s.X.Type(), s.Type()
	_, _, fi := intInfo(from)
	_, _, ti := intInfo(to)
	switch {
	case fi && ti:
		fr.env[s] = c.define("cv", "Int", convInt(from, to, fr.val(s.X)))
	case isUnsafePointer(to) || isUnsafePointer(from) && sortOf(to) == "Ptr":
		// pointer <-> unsafe.Pointer
		if sortOf(from) == "Ptr" || isUnsafePointer(from) {
			if isUnsafePointer(from) && sortOf(to) == "Ptr" {
				fr.env[s] = fr.val(s.X)
				return
			}
			if sortOf(from) == "Ptr" {
				fr.env[s] = fr.val(s.X)
				return
			}
		}
		// *struct / uintptr -> unsafe.Pointer: opaque
		a := fr.addrOfSafe(s.X)
		if a != nil && a.kind == aMem {
			fr.env[s] = app("mk-ptr", a.reg, a.off)
			return
		}
		c.note("conversion to unsafe.Pointer from " + from.String() + " is opaque in " + fr.fn.Name())
		fr.env[s] = c.fresh("uptr", "Ptr")
	case isUnsafePointer(from):
		// unsafe.Pointer -> *struct or uintptr
		c.note("conversion from unsafe.Pointer to " + to.String() + " is opaque in " + fr.fn.Name())
		fr.env[s] = fr.freshVal("fromptr", to)
	case isString(to) && sortOf(from) == "Slice", sortOf(to) == "Slice" && isString(from):
		x := fr.val(s.X)
		r := c.fresh("conv", "Slice")
		reg := fr.newRef("cvreg")
		c.assume(and(eq(app("s-len", r), app("s-len", x)), eq(app("s-cap", r), app("s-len", x)), eq(app("s-off", r), "0"),
			eq(app("s-reg", r), ite(eq(app("s-len", x), "0"), "0", reg))))
		// contents copied
		m := fr.cur.get("M")
		nr := c.fresh("cvbytes", "(Array Int Int)")
		c.assume(fmt.Sprintf("(forall ((i Int)) (! (=> (and (<= 0 i) (< i (s-len %s))) (= (select %s i) (select (select %s (s-reg %s)) (+ (s-off %s) i)))) :pattern ((select %s i))))", x, nr, m, x, x, nr))
		fr.cur.set("M", c.define("st.M", compSorts["M"], app("store", m, reg, nr)))
		fr.env[s] = r
	case isString(to) && ti == false && fi:
		fr.env[s] = fr.freshVal("runestr", to)
	case isFloat(to) || isFloat(from):
		fr.env[s] = fr.freshVal("flt", to)
	default:
		c.note("conversion " + from.String() + " -> " + to.String() + " abstracted")
		fr.env[s] = fr.freshVal("cv?", to)
	}
}

func (fr *Frame) addrOfSafe(v ssa.Value) (a *Addr) {
	defer func() {
		if r := recover(); r != nil {
			a = nil
		}
	}()
	switch v.(type) {
	case *ssa.IndexAddr, *ssa.FieldAddr, *ssa.Alloc, *ssa.Convert, *ssa.ChangeType:
		x := fr.addrOf(v)
		return &x
	}
	return nil
}

func (fr *Frame) makeInterface(s *ssa.MakeInterface) Term {
	c := fr.c()
	x := fr.val(s.X)
	srt := sortOf(s.X.Type())
	tn := sym("box." + typeName(s.X.Type(), fr.x.e.tp) + "." + strings.ReplaceAll(s.X.Type().String(), " ", ""))
	un := sym("un" + strings.Trim(tn, "|"))
	if _, ok := c.declared[tn]; !ok {
		c.items = append(c.items, fmt.Sprintf("(declare-fun %s (%s) Int)", tn, srt))
		c.items = append(c.items, fmt.Sprintf("(declare-fun %s (Int) %s)", un, srt))
		c.declared[tn] = "fun"
	}
	b := app(tn, x)
	c.fact(and(lt("0", b), eq(app(un, b), x)))
	return b
}

func (fr *Frame) typeAssert(s *ssa.TypeAssert) {
	c := fr.c()
	x := fr.val(s.X)
	if _, isIface := s.AssertedType.Underlying().(*types.Interface); isIface {
		if s.CommaOk {
			fr.tuples[s] = []Term{x, c.fresh("taok", "Bool")}
		} else {
			fr.oblige("typeassert", "interface conversion succeeds (non-nil)", s, not(eq(x, "0")))
			fr.env[s] = x
		}
		return
	}
	srt := sortOf(s.AssertedType)
	tn := sym("box." + typeName(s.AssertedType, fr.x.e.tp) + "." + strings.ReplaceAll(s.AssertedType.String(), " ", ""))
	un := sym("un" + strings.Trim(tn, "|"))
	if _, ok := c.declared[tn]; !ok {
		c.items = append(c.items, fmt.Sprintf("(declare-fun %s (%s) Int)", tn, srt))
		c.items = append(c.items, fmt.Sprintf("(declare-fun %s (Int) %s)", un, srt))
		c.declared[tn] = "fun"
	}
	v := c.define("unbox", srt, app(un, x))
	fr.loadFacts(s.AssertedType, v)
	if s.CommaOk {
		fr.tuples[s] = []Term{v, c.fresh("taok", "Bool")}
		return
	}
	c.note("type assertion to " + s.AssertedType.String() + " assumed to succeed in " + fr.fn.Name())
	fr.env[s] = v
}

func (fr *Frame) lookup(s *ssa.Lookup) {
	c := fr.c()
	if isString(s.X.Type()) {
		fr.index(&ssa.Index{X: s.X, Index: s.Index})
		return
	}
	mt := s.X.Type().Underlying().(*types.Map)
	// immutable map table of functions (written only by init)
	if ld, ok := s.X.(*ssa.UnOp); ok {
		if g, ok := ld.X.(*ssa.Global); ok && g.Pkg == fr.x.e.pkg {
			if tab, ok := fr.x.e.mapTables[g.Name()]; ok {
				idx := fr.val(s.Index)
				v, okT := Term("0"), Term("false")
				for _, cd := range sortedCands(tab) {
					v = ite(eq(idx, num(cd.key)), num(int64(fr.x.e.funcID[cd.fn])), v)
					okT = or(okT, eq(idx, num(cd.key)))
				}
				v = c.define("tabfn", "Int", v)
				if s.CommaOk {
					fr.tuples[s] = []Term{v, c.define("tabok", "Bool", okT)}
				} else {
					fr.env[s] = v
				}
				return
			}
		}
	}
	if sortOf(mt.Key()) == "Int" && !isString(mt.Key()) && sortOf(mt.Elem()) == "Int" {
		m := fr.val(s.X)
		k := fr.val(s.Index)
		okT := c.define("mok", "Bool", and(not(eq(m, "0")), app("select", app("select", fr.cur.get("MAPOK"), m), k)))
		v := c.define("mval", "Int", ite(okT, app("select", app("select", fr.cur.get("MAP"), m), k), zeroOf(mt.Elem())))
		if comp := fr.mapFieldComp(s.X); comp != "" && fr.x.e.cf.NonNilElems[comp] {
			c.fact(imp(okT, not(eq(v, "0"))))
		}
		fr.loadFacts(mt.Elem(), v)
		if s.CommaOk {
			fr.tuples[s] = []Term{v, okT}
		} else {
			fr.env[s] = v
		}
		return
	}
	c.note("map lookup with non-integer key/value abstracted in " + fr.fn.Name())
	v := fr.freshVal("mval", mt.Elem())
	fr.loadFacts(mt.Elem(), v)
	if s.CommaOk {
		fr.tuples[s] = []Term{v, c.fresh("mok", "Bool")}
	} else {
		fr.env[s] = v
	}
}

type bigInt struct{}

func (*bigInt) quoPow2(p int, d int64) string {
	// 2^p / d as decimal string
	v := int64(1) << uint(p)
	return fmt.Sprint(v / d)
}

// checkConstructed: every object allocated by this function satisfies the declared never-nil
// field invariants when the function returns (constructors must initialise them).
func (fr *Frame) checkConstructed(ret *ssa.Return) {
	if len(fr.x.e.cf.NonNil) == 0 {
		return
	}
	var allocs []*ssa.Alloc
	for a := range fr.allocRef {
		allocs = append(allocs, a)
	}
	sort.Slice(allocs, func(i, j int) bool { return allocs[i].Pos() < allocs[j].Pos() })
	for _, a := range allocs {
		if !a.Heap || !a.Block().Dominates(ret.Block()) {
			continue
		}
		el := ptrElem(a.Type())
		if _, isS := el.Underlying().(*types.Struct); !isS || !fr.isLocalStruct(el) {
			continue
		}
		for _, l := range fr.structLeaves(el) {
			if fr.x.e.cf.NonNil[l.path] && l.arr == 0 {
				v := app("select", fr.cur.get(l.path), fr.allocRef[a])
				fr.oblige("nonnil", "constructed object: field "+l.path+" is non-nil when the constructor returns", ret, not(eq(v, zeroOf(l.typ))))
			}
		}
	}
}

// checkClosurePre: a closure with a contract has its preconditions checked where it is created
// (they may only speak about captured variables and fields that cannot change before it runs).
func (fr *Frame) checkClosurePre(mc *ssa.MakeClosure, f *ssa.Function) {
	e := fr.x.e
	ct := e.cf.Funcs[f.RelString(e.tp)]
	if ct == nil {
		return
	}
	vars := map[string]sval{}
	for i, fv := range f.FreeVars {
		if i >= len(mc.Bindings) {
			break
		}
		b := mc.Bindings[i]
		a := fr.addrOfSafe(b)
		el := ptrElem(fv.Type())
		if a != nil && a.kind == aCell {
			vars[fv.Name()] = sval{t: fr.cur.get(a.comp), typ: el, sort: sortOf(el)}
		}
	}
	for _, cl := range ct.Clauses {
		if cl.Kind != "requires" {
			continue
		}
		for _, cj := range splitConj(cl.Expr) {
			se := fr.specEnvFor(fr.cur, nil, vars, false)
			n0 := len(fr.c().obls)
			fr.proveSpecEnv("pre", "precondition of closure "+f.Name()+" at its creation: "+cj.String(), cl, cj, se)
			for _, o := range fr.c().obls[n0:] {
				o.Pos = fr.posOf(mc) + " (" + o.Pos + ")"
				o.Props = nil
			}
		}
	}
}

// mapFieldComp: the field component a map value was loaded from (x.f), or "".
func (fr *Frame) mapFieldComp(v ssa.Value) string {
	ld, ok := v.(*ssa.UnOp)
	if !ok || ld.Op != token.MUL {
		return ""
	}
	if fa, ok := ld.X.(*ssa.FieldAddr); ok {
		c, _ := fr.x.e.staticFieldComp(fa)
		return c
	}
	// through a local variable holding the map
	if a, ok := ld.X.(*ssa.Alloc); ok {
		for _, r := range *a.Referrers() {
			if st, ok := r.(*ssa.Store); ok && st.Addr == a {
				return fr.mapFieldComp(st.Val)
			}
		}
	}
	return ""
}

func (fr *Frame) ghostCell(name string) string {
	return fmt.Sprintf("L.%d.%d.ghost.%s", fr.x.id, fr.id, name)
}

func calleeName(cc *ssa.CallCommon) string {
	if cc.IsInvoke() {
		return cc.Method.Name()
	}
	if f := cc.StaticCallee(); f != nil {
		if f.Pkg != nil && f.Pkg.Pkg != nil && strings.HasSuffix(f.Pkg.Pkg.Path(), "shmipc-go") {
			return f.RelString(f.Pkg.Pkg)
		}
		return f.String()
	}
	return ""
}

// callOrdinals: static numbering of the calls to each callee in source (block/instruction) order.
func (fr *Frame) callOrdinal(call *ssa.Call, suffix string) int {
	n := 0
	for _, b := range fr.fn.Blocks {
		for _, in := range b.Instrs {
			if c, ok := in.(*ssa.Call); ok && strings.HasSuffix(calleeName(c.Common()), suffix) {
				if c == call {
					return n
				}
				n++
			}
		}
	}
	return -1
}

func (fr *Frame) ghostAtCall(call *ssa.Call, res []Term) {
	name := calleeName(call.Common())
	for _, ac := range fr.contract.AtCalls {
		if ac.Hint || ac.AtReturn || !strings.HasSuffix(name, ac.Callee) || fr.callOrdinal(call, ac.Callee) != ac.N {
			continue
		}
		if !fr.x.active(&Clause{Props: ac.Props}) {
			continue
		}
		vars := map[string]sval{}
		sig := call.Common().Signature()
		for i, r := range res {
			t := sig.Results().At(i).Type()
			vars[fmt.Sprintf("r%d", i)] = sval{t: r, typ: t, sort: sortOf(t)}
		}
		// a0, a1, ...: the call's arguments (a0 is the receiver of a method call)
		k := 0
		if call.Common().IsInvoke() {
			vars["a0"] = sval{t: fr.val(call.Common().Value), typ: call.Common().Value.Type(), sort: sortOf(call.Common().Value.Type())}
			k = 1
		}
		for i, a := range call.Common().Args {
			vars[fmt.Sprintf("a%d", i+k)] = sval{t: fr.val(a), typ: a.Type(), sort: sortOf(a.Type())}
		}
		se := fr.specEnvFor(fr.cur, fr.entry, fr.mergeVars(vars), true)
		se.bound = map[string]bool{}
		for k := range vars {
			se.bound[k] = true
		}
		v := se.eval(ac.Expr)
		fr.assignGhost(ac, se, v)
	}
}

// assignGhost: ghost variable, ghost field (x.f) or ghost array element (x.f[i] / v[i])
func (fr *Frame) assignGhost(ac AtCall, se *specEnv, v sval) {
	c := fr.c()
	lhs := ac.LHS
	if lhs == nil || lhs.Op == "ident" {
		name := ac.Var
		if lhs != nil {
			name = lhs.Name
		}
		cn := fr.ghostCell(name)
		if _, ok := compSorts[cn]; !ok {
			specFail("unknown ghost variable %s (contract line %d)", name, ac.Line)
		}
		fr.cur.set(cn, c.define("ghost."+name, compSorts[cn], v.t))
		return
	}
	var idx *Spec
	target := lhs
	if lhs.Op == "index" {
		idx = lhs.Args[1]
		target = lhs.Args[0]
	}
	if target.Op == "ident" && idx != nil {
		cn := fr.ghostCell(target.Name)
		i := se.eval(idx)
		fr.cur.set(cn, c.define("ghost."+target.Name, compSorts[cn], app("store", fr.cur.get(cn), i.t, v.t)))
		return
	}
	t := se.eval(target)
	if t.addr == nil || t.addr.kind != aField {
		specFail("ghost assignment target %s is not a ghost field (contract line %d)", lhs, ac.Line)
	}
	if !fr.isGhostComp(t.addr.comp) {
		specFail("ghost assignment to real state %s (contract line %d)", lhs, ac.Line)
	}
	arr := fr.cur.get(t.addr.comp)
	nv := v.t
	if idx != nil {
		i := se.eval(idx)
		nv = app("store", app("select", arr, t.addr.ref), i.t, v.t)
	}
	fr.cur.set(t.addr.comp, c.define("ghost", compSorts[t.addr.comp], app("store", arr, t.addr.ref, nv)))
}

func (fr *Frame) isGhostComp(comp string) bool {
	for _, g := range fr.x.e.cf.Ghost {
		if comp == "F."+g.Type+"."+g.Field {
			return true
		}
	}
	return false
}

// ghostAtReturn: ghost updates anchored at every return of the function under verification
func (fr *Frame) ghostAtReturn(vals []Term) {
	if fr.contract == nil {
		return
	}
	for _, ac := range fr.contract.AtCalls {
		if !ac.AtReturn || !fr.x.active(&Clause{Props: ac.Props}) {
			continue
		}
		vars := map[string]sval{}
		sig := fr.fn.Signature
		for i, r := range vals {
			t := sig.Results().At(i).Type()
			sv := sval{t: r, typ: t, sort: sortOf(t)}
			vars[fmt.Sprintf("r%d", i)] = sv
			if n := sig.Results().At(i).Name(); n != "" && n != "_" {
				vars[n] = sv
			}
		}
		if len(vals) == 1 {
			vars["result"] = vars["r0"]
		}
		se := fr.specEnvFor(fr.cur, fr.entry, fr.mergeVars(vars), false)
		v := se.eval(ac.Expr)
		fr.assignGhost(ac, se, v)
	}
}

func (fr *Frame) initGhosts() {
	if fr.contract == nil {
		return
	}
	for _, g := range fr.contract.GhostVars {
		cn := fr.ghostCell(g.Name)
		fr.x.compSort(cn, g.Sort)
		se := fr.specEnvFor(fr.cur, nil, fr.mergeVars(nil), false)
		fr.cur.set(cn, se.eval(g.Init).t)
	}
	// every AtCall must resolve (anchor check)
	for _, ac := range fr.contract.AtCalls {
		if ac.AtReturn {
			continue
		}
		found := 0
		for _, b := range fr.fn.Blocks {
			for _, in := range b.Instrs {
				if c, ok := in.(*ssa.Call); ok && strings.HasSuffix(calleeName(c.Common()), ac.Callee) {
					found++
				}
				if _, ok := in.(*ssa.Send); ok && ac.Callee == "chansend" {
					found++
				}
			}
		}
		if found <= ac.N && !ac.Optional {
			// The annotated call is gone. The clause attached to it can no longer fire; what the contract demands
			// of the function (exit / ensures clauses over the ghosts such clauses set) decides the verdict.
			// GOVC_STRICT_ANCHORS=1 turns this back into a contract error (used to catch typos in new contracts).
			if os.Getenv("GOVC_STRICT_ANCHORS") != "" {
				specFail("anchor-missing: call %s#%d not found (contract line %d)", ac.Callee, ac.N, ac.Line)
			}
			fr.c().note(fmt.Sprintf("annotated call %s#%d not found in %s (contract line %d): clause skipped", ac.Callee, ac.N, fr.fn.Name(), ac.Line))
		}
	}
}

// applyLemma assumes an instance of a separately proved arithmetic lemma: apply name(args)
func (fr *Frame) applyLemma(cl *Clause, st *State, vars map[string]sval) {
	e := cl.Expr
	if e.Op != "call" {
		specFail("apply expects lemma(args) (contract line %d)", cl.Line)
	}
	pd, ok := fr.x.e.cf.Ariths[e.Name]
	if !ok {
		specFail("unknown arith lemma %s (contract line %d)", e.Name, cl.Line)
	}
	fr.x.lemmasUsed[e.Name] = true
	se := fr.specEnvFor(st, fr.entry, fr.mergeVars(vars), vars == nil)
	n := *se
	n.vars = map[string]sval{}
	n.bound = map[string]bool{}
	saved := fr.cur
	fr.cur = st
	for i, p := range pd.Params {
		n.vars[p.Name] = mathInt(se.ev(e.Args[i]).t)
		n.bound[p.Name] = true
	}
	n.preferLocals = false
	t := n.ev(pd.Body).t
	fr.cur = saved
	fr.c().assume(imp(st.reach, t))
}

// loopVars: identifiers usable in a loop's modifies clause (parameters at their entry values)
func (fr *Frame) loopVars(st *State) map[string]sval {
	return fr.mergeVars(map[string]sval{})
}

// checkLoopFrameRange: a bulk write (callee modifies clause, copy, append, syscall) inside a loop with a
// declared frame must lie within one of its ranges (or in memory allocated after the loop started)
func (fr *Frame) checkLoopFrameRange(comp string, reg, lo, hi Term, in ssa.Instruction) {
	if fr.block == nil || len(fr.loopMods) == 0 {
		return
	}
	for li, lmods := range fr.loopMods {
		if !li.body[fr.block] {
			continue
		}
		var ok []Term
		for _, lm := range lmods {
			if lm.kind == "range" && lm.comp == comp {
				ok = append(ok, and(eq(reg, lm.reg), le(lm.lo, lo), le(hi, lm.hi)))
			}
		}
		ok = append(ok, le(fr.loopW[li], reg), le(hi, lo))
		fr.oblige("loopframe", fmt.Sprintf("write of a memory range inside loop %d stays within the loop's modifies clause", li.ord), in, or(ok...))
	}
}

// loopFrameForbidsComp: a callee that may write all of a memory component cannot be called inside a framed loop
func (fr *Frame) loopFrameWholeComp(comp string, in ssa.Instruction, what string) {
	if fr.block == nil || len(fr.loopMods) == 0 {
		return
	}
	for li := range fr.loopMods {
		if li.body[fr.block] {
			fr.oblige("loopframe", fmt.Sprintf("%s may write all of %s inside loop %d, which declares a memory frame", what, comp, li.ord), in, "false")
		}
	}
}

// checkLoopFrame: a memory store inside a loop with a declared frame must hit one of its ranges
func (fr *Frame) checkLoopFrame(comp string, reg, off Term, w int, in ssa.Instruction) {
	if fr.block == nil || len(fr.loopMods) == 0 {
		return
	}
	for li, lmods := range fr.loopMods {
		if !li.body[fr.block] {
			continue
		}
		var ok []Term
		for _, lm := range lmods {
			if lm.kind == "range" && lm.comp == comp {
				ok = append(ok, and(eq(reg, lm.reg), le(lm.lo, off), le(add(off, num(int64(w))), lm.hi)))
			}
		}
		// stores into regions allocated after the loop started are always allowed
		fr.oblige("loopframe", fmt.Sprintf("store inside loop %d stays within the loop's modifies clause", li.ord), in, or(append(ok, le(fr.loopW[li], reg))...))
	}
}

// hintsAtCall: proof hints placed right before a call: each is proved where it stands, then assumed.
func (fr *Frame) hintsAtCall(call *ssa.Call) {
	name := calleeName(call.Common())
	for _, ac := range fr.contract.AtCalls {
		if !ac.Hint || ac.AtReturn || !strings.HasSuffix(name, ac.Callee) || fr.callOrdinal(call, ac.Callee) != ac.N {
			continue
		}
		cl := &Clause{Kind: "hint", Props: ac.Props, Line: ac.Line}
		if !fr.x.active(cl) {
			continue
		}
		avars := map[string]sval{}
		k := 0
		if call.Common().IsInvoke() {
			avars["a0"] = sval{t: fr.val(call.Common().Value), typ: call.Common().Value.Type(), sort: sortOf(call.Common().Value.Type())}
			k = 1
		}
		for i, a := range call.Common().Args {
			avars[fmt.Sprintf("a%d", i+k)] = sval{t: fr.val(a), typ: a.Type(), sort: sortOf(a.Type())}
		}
		se := fr.specEnvFor(fr.cur, fr.entry, fr.mergeVars(avars), true)
		for n := range avars {
			se.bound[n] = true
		}
		if ac.Assume {
			fr.x.externs[fmt.Sprintf("ASSUMED (unchecked) in %s before call %s#%d: %s", fr.fn.Name(), ac.Callee, ac.N, ac.Text)] = true
			se.assuming = true // assumed universal facts are also instantiated explicitly at the indices the code uses
			t := se.eval(ac.Expr).t
			fr.c().assume(imp(fr.cur.reach, t))
			continue
		}
		kind := "hint"
		if ac.CheckOnly {
			kind = "assert"
		}
		for _, cj := range splitConj(ac.Expr) {
			cj := cj
			func() {
				if kind == "hint" {
					// a proof hint is an aid, not a claim: one that no longer matches the code (a renamed local)
					// is skipped with a note instead of making the whole function undecided
					defer func() {
						if r := recover(); r != nil {
							if se2, ok := r.(specError); ok && strings.Contains(se2.msg, "unknown identifier") {
								fr.c().note(fmt.Sprintf("proof hint skipped in %s (%s): %s", fr.fn.Name(), se2.msg, cj.String()))
								return
							}
							panic(r)
						}
					}()
				}
				fr.proveSpecEnv(kind, fmt.Sprintf("assertion before call %s#%d: %s", ac.Callee, ac.N, cj.String()), cl, cj, se)
			}()
		}
	}
}

// ghostAtSend: ghost updates anchored at the n-th channel send of the function ("at call chansend#n ghost ...")
func (fr *Frame) ghostAtSend(snd *ssa.Send) {
	n := 0
	for _, b := range fr.fn.Blocks {
		for _, in := range b.Instrs {
			if x, ok := in.(*ssa.Send); ok {
				if x == snd {
					goto found
				}
				n++
			}
		}
	}
	return
found:
	for _, ac := range fr.contract.AtCalls {
		if ac.Hint || ac.AtReturn || ac.Callee != "chansend" || ac.N != n {
			continue
		}
		vars := map[string]sval{"a0": {t: fr.val(snd.Chan), typ: snd.Chan.Type(), sort: "Int"}}
		se := fr.specEnvFor(fr.cur, fr.entry, fr.mergeVars(vars), true)
		se.bound["a0"] = true
		v := se.eval(ac.Expr)
		fr.assignGhost(ac, se, v)
	}
}
