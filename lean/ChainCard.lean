import Mathlib

/-!
Counting step behind C02 (conservation): the SMT obligations establish, for every sequential history,
that the free chain `f : position → slot` is injective on its `n` positions and that the slots are
partitioned into the chain's image and the held set `H`.  Finite-set counting (which the SMT solvers
do not do) then gives `n + |H| = cap`; with nothing held, `n = cap` and the chain visits every slot once.
-/

open Finset

theorem chain_card (cap n : ℕ) (H : Finset ℕ) (f : ℕ → ℕ)
    (hH : H ⊆ range cap)
    (hinj : Set.InjOn f (range n : Set ℕ))
    (himg : (range n).image f = range cap \ H) :
    n + H.card = cap := by
  have h1 : ((range n).image f).card = n := by
    rw [card_image_of_injOn hinj, card_range]
  have h2 : (range cap \ H).card = cap - H.card := by
    rw [card_sdiff_of_subset hH, card_range]
  have h3 : H.card ≤ cap := by
    have := card_le_card hH
    simpa using this
  rw [himg, h2] at h1
  omega

theorem chain_full (cap n : ℕ) (f : ℕ → ℕ)
    (hinj : Set.InjOn f (range n : Set ℕ))
    (himg : (range n).image f = range cap) :
    n = cap := by
  have := chain_card cap n ∅ f (by simp) hinj (by simpa using himg)
  simpa using this
