#!/bin/bash
# Runs the repository's test suite (guard off) in a private mount namespace so that concurrent
# runs do not collide on the fixed /dev/shm and /tmp paths the tests use.
# usage: runtests.sh [dir] [go test args...]
DIR="${1:-/repo}"; shift
export GOFLAGS=-mod=mod GOPROXY=off GOSUMDB=off GOTOOLCHAIN=local
exec unshare -m bash -c '
  D="$1"; shift
  mount -t tmpfs tmpfs /dev/shm && mkdir /dev/shm/.wt && mount --bind "$D" /dev/shm/.wt &&
  mount -t tmpfs tmpfs /tmp && mkdir -p "$D" 2>/dev/null; 
  case "$D" in /tmp/*) mkdir -p "$D" && mount --bind /dev/shm/.wt "$D";; esac
  umount /dev/shm/.wt 2>/dev/null; rmdir /dev/shm/.wt 2>/dev/null
  cd "$D" && go test -vet=off -count=1 -timeout 25m "$@" ./...
' _ "$DIR" "$@"
