#!/bin/bash
# Runs the repository's test suite (guard off) in a private mount AND network namespace so that concurrent
# runs do not collide on the fixed /dev/shm and /tmp paths and on the fixed TCP ports (:7777, :29998) the tests use.
# usage: runtests.sh [dir] [go test args...]
DIR="${1:-/repo}"; shift
export GOFLAGS=-mod=mod GOPROXY=off GOSUMDB=off GOTOOLCHAIN=local
exec unshare -m -n bash -c '
  D="$1"; shift
  ip link set lo up 2>/dev/null || ifconfig lo up 2>/dev/null
  mount -t tmpfs tmpfs /dev/shm && mkdir /dev/shm/.wt && mount --bind "$D" /dev/shm/.wt &&
  mount -t tmpfs tmpfs /tmp && mkdir -p "$D" 2>/dev/null; 
  case "$D" in /tmp/*) mkdir -p "$D" && mount --bind /dev/shm/.wt "$D";; esac
  umount /dev/shm/.wt 2>/dev/null; rmdir /dev/shm/.wt 2>/dev/null
  cd "$D" && go test -vet=off -count=1 -timeout 25m "$@" ./...
' _ "$DIR" "$@"
