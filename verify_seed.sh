#!/bin/bash
# verify_seed.sh <id>: confirm a seeded change in a scratch worktree of /repo's HEAD:
#  - applies seeded/<id>/patch.diff, builds, runs the existing suite (must pass),
#  - runs the demonstration test with the change (must fail) and without it (must pass).
# Writes seeded/<id>/verify.log; the worktree is removed afterwards.
set -u
ID="$1"; S=/verif/seeded/$ID
W=$(mktemp -d /tmp/vseed-XXXXXX); rmdir "$W"
git -C /repo worktree add -q --detach "$W" HEAD || exit 3
trap 'git -C /repo worktree remove --force "$W" 2>/dev/null' EXIT
LOG=$S/verify.log; : > "$LOG"
cd "$W"
git apply "$S/patch.diff" || { echo "patch does not apply" | tee -a "$LOG"; exit 3; }
GOFLAGS=-mod=mod GOPROXY=off GOSUMDB=off go build ./... || { echo "BUILD FAILED" | tee -a "$LOG"; exit 3; }
echo "[1] existing suite with the change" >> "$LOG"
/verif/runtests.sh "$W" >> "$LOG" 2>&1; r1=$?
cp "$S/seed_demo_test.go" "$W/"
echo "[2] demo with the change (must fail)" >> "$LOG"
/verif/runtests.sh "$W" -run '^TestSeedDemo$' >> "$LOG" 2>&1; r2=$?
git checkout -q -- . 
echo "[3] demo without the change (must pass)" >> "$LOG"
/verif/runtests.sh "$W" -run '^TestSeedDemo$' >> "$LOG" 2>&1; r3=$?
echo "RESULT id=$ID suite_with_change=$r1 demo_with_change=$r2 demo_without_change=$r3" | tee -a "$LOG"
[ $r1 -eq 0 ] && [ $r2 -ne 0 ] && [ $r3 -eq 0 ]
