package shmipc

import (
	"io"
	"testing"
)

// F12: Stream.close() loads the state, then CAS(state, loaded, closed). If the peer's close arrives in between
// (halfClose(): CAS opened -> halfClosed), close()'s CAS fails and close() just returns nil: the local Close() has
// no effect - the stream stays half-closed, is never cleaned and still counts as active.
//
// The schedule is made deterministic with a yield point inserted mechanically (run.sh) right after the load.
func TestVerifF12CloseRace(t *testing.T) {
	conf := DefaultConfig()
	conf.LogOutput = io.Discard
	s := &Session{config: conf, logger: newLogger("f12", io.Discard), streams: map[uint32]*Stream{},
		sendCh: make(chan sendReady, 64), notifyContinueWriteCh: make(chan struct{}, 1), shutdownCh: make(chan struct{}),
		communicationVersion: 3, dispatcher: defaultDispatcher}
	s.queueManager = &queueManager{sendQueue: createQueue(8), recvQueue: createQueue(8)}
	mem := make([]byte, 1<<20)
	bm, err := createBufferManager([]*SizePercentPair{{Size: 4096, Percent: 100}}, "", mem, 0)
	if err != nil {
		t.Fatal(err)
	}
	s.bufferManager = bm
	st := newStream(s, 7)
	s.streams[7] = st
	ran := false
	verifYieldF12 = func(x *Stream) {
		if ran || x != st {
			return
		}
		ran = true
		x.halfClose() // the peer's StreamClose event is handled right now, on the event loop
	}
	err = st.Close()
	verifYieldF12 = nil
	if !ran {
		t.Fatal("yield point not reached")
	}
	_, stillActive := s.streams[7]
	t.Logf("Close() returned %v; state=%d (0 open, 1 closed, 2 half-closed); still registered in the session: %v", err, st.getStreamState(), stillActive)
	if st.getStreamState() != uint32(streamClosed) || stillActive {
		t.Fatalf("F12: after a local Close() that returned %v the stream is not closed (state %d) and still counts as active (%v)", err, st.getStreamState(), stillActive)
	}
}
