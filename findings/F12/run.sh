#!/bin/bash
# Demonstrates finding F12 (local Close racing with the peer's close) on the real code of /repo (or $1).
# stream.go is replaced through `go test -overlay` by a copy with ONE inserted statement: a call to a yield function
# (nil in production) right after close() has loaded the state.
set -u
REPO="${1:-/repo}"
export GOFLAGS=-mod=mod GOPROXY=off GOSUMDB=off GOTOOLCHAIN=local
D=$(mktemp -d /var/tmp/f12.XXXXXX); trap 'rm -rf "$D"' EXIT
python3 - "$REPO/stream.go" "$D/stream.go" <<'PY'
import sys,re
s=open(sys.argv[1]).read()
m=re.search(r'func \(s \*Stream\) close\(\) error \{\n(\s*)oldState := s\.getStreamState\(\)\n', s)
if not m:
    print("F12: the state load at the top of Stream.close was not found (code changed)"); sys.exit(3)
ins=m.group(0)+m.group(1)+"if verifYieldF12 != nil {\n"+m.group(1)+"\tverifYieldF12(s)\n"+m.group(1)+"}\n"
open(sys.argv[2],'w').write(s.replace(m.group(0),ins,1)+"\nvar verifYieldF12 func(*Stream)\n")
PY
[ $? -eq 0 ] || exit 3
cp "$(dirname "$0")/race_test.go" "$D/zz_f12_test.go"
cat > "$D/ov.json" <<J
{"Replace":{"$REPO/stream.go":"$D/stream.go","$REPO/zz_f12_test.go":"$D/zz_f12_test.go"}}
J
cd "$REPO" && go test -overlay "$D/ov.json" -vet=off -count=1 -timeout 60s -run '^TestVerifF12CloseRace$' -v . 2>&1 | grep -v "^\s*$" | grep -v "^.\[9" | tail -8
