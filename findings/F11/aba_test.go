package shmipc

import "testing"

// F11: ABA in bufferList.pop. pop reads the successor of the head slot and then publishes it with
// CAS(head, oldHead, next). The CAS only compares the head OFFSET. If, between the read and the CAS, other
// threads pop the head slot and its successor, push the old head slot back and drain the list until the old
// head slot is the head again, the CAS succeeds with a stale successor: the list head now designates a slot
// that is still handed out, and the slots that were really behind the head are no longer reachable.
//
// The schedule is made deterministic with a yield point inserted mechanically between the two steps (run.sh
// builds an overlay of buffer_manager.go in which the CAS argument is evaluated into a local first - Go
// evaluates call arguments before the call anyway - and calls verifYieldF11 in between).
func TestVerifF11ABA(t *testing.T) {
	mem := make([]byte, 1<<16)
	l, err := createFreeBufferList(6, 64, mem, 0)
	if err != nil {
		t.Fatal(err)
	}
	stride := uint32(64 + bufferHeaderSize)
	A, B := uint32(0), stride // slot offsets of the first two elements of the fresh chain A -> B -> C -> D -> E -> F
	var held []*bufferSlice
	ran := false
	verifYieldF11 = func() {
		if ran {
			return
		}
		ran = true
		verifYieldF11 = nil
		// "other threads", while T1 sits between reading next(A) == B and its CAS:
		a, _ := l.pop() // takes A, head = B
		b, _ := l.pop() // takes B, head = C
		if a == nil || b == nil || a.offsetInShm-l.bufferRegionOffsetInShm != A || b.offsetInShm-l.bufferRegionOffsetInShm != B {
			t.Fatalf("unexpected slots")
		}
		l.push(a) // A goes to the tail: C -> D -> E -> F -> A
		for i := 0; i < 3; i++ {
			s, err := l.pop() // C, D, E
			if err != nil {
				t.Fatalf("drain %d: %v", i, err)
			}
			held = append(held, s)
		}
		l.push(held[1]) // D back: F -> A -> D (T1's reservation is still counted, so one more free slot is needed to take F)
		f, err := l.pop() // F: head = A again, and A's successor is D, not B
		if err != nil {
			t.Fatalf("pop F: %v", err)
		}
		held = []*bufferSlice{held[0], held[2], f, b} // C, E, F, B are handed out
		if *l.head != A {
			t.Fatalf("head is %d, want %d", *l.head, A)
		}
	}
	s, err := l.pop() // T1
	if err != nil {
		t.Fatalf("T1 pop failed: %v", err)
	}
	if !ran {
		t.Fatalf("yield point not reached")
	}
	t.Logf("T1 got slot %d; list head is now %d, free counter %d", s.offsetInShm-l.bufferRegionOffsetInShm, *l.head, *l.size)
	for _, h := range held {
		if h.offsetInShm-l.bufferRegionOffsetInShm == *l.head {
			t.Fatalf("F11: the list head (%d) designates a slot that is still handed out (slot B is held by another thread); the slot really behind the old head (D) is unreachable, free counter says %d", *l.head, *l.size)
		}
	}
}
