#!/bin/bash
# Demonstrates finding F11 (ABA in bufferList.pop) on the real code of /repo (or $1).
# Nothing is written to the repository: buffer_manager.go is replaced through `go test -overlay` by a copy in
# which ONE line is rewritten mechanically - the CAS argument is evaluated into a local first and a yield point
# is called in between (Go evaluates call arguments before the call, so the program is unchanged when the yield
# function is nil) - and this test file is added to the package.
set -u
REPO="${1:-/repo}"
export GOFLAGS=-mod=mod GOPROXY=off GOSUMDB=off GOTOOLCHAIN=local
D=$(mktemp -d /var/tmp/f11.XXXXXX); trap 'rm -rf "$D"' EXIT
python3 - "$REPO/buffer_manager.go" "$D/buffer_manager.go" <<'PY'
import sys
s=open(sys.argv[1]).read()
old="\t\t\tif atomic.CompareAndSwapUint32(b.head, oldHead, bh.nextBufferOffset()) {\n"
new="\t\t\tnextF11 := bh.nextBufferOffset()\n\t\t\tif verifYieldF11 != nil {\n\t\t\t\tverifYieldF11()\n\t\t\t}\n\t\t\tif atomic.CompareAndSwapUint32(b.head, oldHead, nextF11) {\n"
if s.count(old)!=1:
    print("F11: the CAS line of bufferList.pop was not found (code changed)"); sys.exit(3)
open(sys.argv[2],'w').write(s.replace(old,new)+"\nvar verifYieldF11 func()\n")
PY
[ $? -eq 0 ] || exit 3
cp "$(dirname "$0")/aba_test.go" "$D/zz_f11_test.go"
cat > "$D/ov.json" <<J
{"Replace":{"$REPO/buffer_manager.go":"$D/buffer_manager.go","$REPO/zz_f11_test.go":"$D/zz_f11_test.go"}}
J
cd "$REPO" && go test -overlay "$D/ov.json" -vet=off -count=1 -timeout 60s -run '^TestVerifF11ABA$' -v . 2>&1 | grep -v "^\s*$" | tail -8
