#!/bin/bash
# Demonstrates finding F14 (OpenStream racing with a complete Close: assignment to entry in nil map) on the real
# code of /repo (or $1). session.go is replaced through `go test -overlay` by a copy with ONE inserted statement:
# a call to a yield function (nil in production) right after OpenStream created the stream object, i.e. between
# its IsClosed()/IsHealthy() checks and its registration under streamLock.
set -u
REPO="${1:-/repo}"
export GOFLAGS=-mod=mod GOPROXY=off GOSUMDB=off GOTOOLCHAIN=local
D=$(mktemp -d /var/tmp/f14.XXXXXX); trap 'rm -rf "$D"' EXIT
python3 - "$REPO/session.go" "$D/session.go" <<'PY'
import sys,re
s=open(sys.argv[1]).read()
m=re.search(r'\n(\s*)stream := newStream\(s, id\)\n', s)
if not m:
    print("F14: the stream creation in Session.OpenStream was not found (code changed)"); sys.exit(3)
ins=m.group(0)+m.group(1)+"if verifYieldF14 != nil {\n"+m.group(1)+"\tverifYieldF14(s)\n"+m.group(1)+"}\n"
open(sys.argv[2],'w').write(s.replace(m.group(0),ins,1)+"\nvar verifYieldF14 func(*Session)\n")
PY
[ $? -eq 0 ] || exit 3
cp "$(dirname "$0")/openclose_test.go" "$D/zz_f14_test.go"
cat > "$D/ov.json" <<J
{"Replace":{"$REPO/session.go":"$D/session.go","$REPO/zz_f14_test.go":"$D/zz_f14_test.go"}}
J
cd "$REPO" && go test -overlay "$D/ov.json" -vet=off -count=1 -timeout 120s -run '^TestVerifF14OpenStreamAfterClose$' -v . 2>&1 | grep -v "^\s*$" | grep -v "^.\[9" | tail -12
exit ${PIPESTATUS[0]}
