package shmipc

import (
	"io"
	"testing"
	"time"
)

// F14: OpenStream checks IsClosed()/IsHealthy() first and registers the new stream later (s.streams[id] = stream
// under streamLock). If the session is closed completely in between - Close() runs and its dispatcher task sets
// s.streams = nil - the registration is an assignment to an entry of a nil map: the caller of OpenStream /
// SessionManager.GetStream panics instead of getting ErrSessionShutdown.
//
// The schedule is made deterministic with a yield point inserted mechanically (run.sh) between the checks and
// the registration.
func TestVerifF14OpenStreamAfterClose(t *testing.T) {
	conf := testConf()
	conf.LogOutput = io.Discard
	client, server := testClientServerConfig(conf)
	defer server.Close()
	ran := false
	verifYieldF14 = func(s *Session) {
		if ran || s != client {
			return
		}
		ran = true
		s.Close() // the session is lost right now (e.g. the event loop saw the connection break: exitErr -> Close)
		for i := 0; i < 1000; i++ {
			s.streamLock.Lock()
			gone := s.streams == nil
			s.streamLock.Unlock()
			if gone {
				return
			}
			time.Sleep(5 * time.Millisecond)
		}
		t.Log("setup: the close task did not run")
	}
	defer func() { verifYieldF14 = nil }()
	var panicked interface{}
	var st *Stream
	var err error
	func() {
		defer func() {
			if panicked = recover(); panicked != nil {
				client.streamLock.Unlock() // OpenStream panicked while holding it
			}
		}()
		st, err = client.OpenStream()
	}()
	if !ran {
		t.Fatal("yield point not reached")
	}
	t.Logf("OpenStream returned stream=%v err=%v panic=%v", st, err, panicked)
	if panicked != nil {
		t.Fatalf("F14: OpenStream panicked when the session was closed between its checks and its registration: %v", panicked)
	}
	if err == nil {
		t.Fatalf("F14: OpenStream handed out a stream of a session that is closed and has dropped its stream table")
	}
}
