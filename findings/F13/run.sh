#!/bin/bash
# Demonstrates finding F13 (OpenStream during Close returns (nil, nil); the stream pool then dereferences nil)
# on the real, unmodified code of /repo (or $1). The test file is injected with `go test -overlay`.
set -u
REPO="${1:-/repo}"
export GOFLAGS=-mod=mod GOPROXY=off GOSUMDB=off GOTOOLCHAIN=local
D=$(mktemp -d /var/tmp/f13.XXXXXX); trap 'rm -rf "$D"' EXIT
cp "$(dirname "$0")/openstream_test.go" "$D/zz_f13_test.go"
cat > "$D/ov.json" <<J
{"Replace":{"$REPO/zz_f13_test.go":"$D/zz_f13_test.go"}}
J
cd "$REPO" && go test -overlay "$D/ov.json" -vet=off -count=1 -timeout 120s -run '^TestVerifF13OpenStreamDuringClose$' -v . 2>&1 | grep -v "^\s*$" | grep -v "^.\[9" | tail -12
exit ${PIPESTATUS[0]}
