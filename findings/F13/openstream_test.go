package shmipc

import (
	"bytes"
	"sync"
	"testing"
	"time"
)

// F13: Session.Close() publishes "closed" (CAS shutdown 0 -> 1) BEFORE it records why (shutdownErr, set a few
// statements later under shutdownLock, after a log line). OpenStream() checks IsClosed() and then returns
// (nil, s.shutdownErr) - in that window shutdownErr is still nil, so OpenStream returns (nil, nil), and the
// stream pool (SessionManager.GetStream -> getOrOpenStream) dereferences the nil stream: a caller that asks
// for a stream while its session is being lost panics instead of getting an error.
//
// The window is held open deterministically with the library's own configuration knob: Config.LogOutput is a
// writer that parks the goroutine that logs "close session ..." (the statement between the CAS and the
// assignment of shutdownErr). No library code is changed.
type f13ParkingWriter struct {
	mu      sync.Mutex
	parked  chan struct{} // closed when Close() reached the log line
	release chan struct{}
	armed   bool
}

func (w *f13ParkingWriter) Write(p []byte) (int, error) {
	w.mu.Lock()
	hit := w.armed && bytes.Contains(p, []byte("close session"))
	if hit {
		w.armed = false
	}
	w.mu.Unlock()
	if hit {
		close(w.parked)
		<-w.release
	}
	return len(p), nil
}

func TestVerifF13OpenStreamDuringClose(t *testing.T) {
	old := level
	SetLogLevel(levelInfo)
	defer SetLogLevel(old)
	w := &f13ParkingWriter{parked: make(chan struct{}), release: make(chan struct{})}
	conf := testConf()
	conf.LogOutput = w
	client, server := testClientServerConfig(conf)
	defer server.Close()

	pool := newStreamPool(4)
	first, err := client.OpenStream()
	if err != nil || first == nil {
		t.Fatalf("setup: OpenStream on a live session: %v %v", first, err)
	}
	first.pool = pool
	pool.session.Store(client)

	w.mu.Lock()
	w.armed = true
	w.mu.Unlock()
	closed := make(chan struct{})
	go func() { client.Close(); close(closed) }()
	select {
	case <-w.parked:
	case <-time.After(10 * time.Second):
		t.Fatal("setup: Close() did not reach its log line")
	}
	// Close() is now between CAS(shutdown, 0, 1) and the assignment of shutdownErr.
	st, err := client.OpenStream()
	t.Logf("OpenStream while Close() is in progress returned stream=%v err=%v", st, err)
	var panicked interface{}
	func() {
		defer func() { panicked = recover() }()
		s2, e2 := pool.getOrOpenStream()
		t.Logf("getOrOpenStream returned stream=%v err=%v", s2, e2)
	}()
	close(w.release)
	<-closed
	if st == nil && err == nil {
		t.Errorf("F13: OpenStream returned (nil, nil): neither a stream nor an error")
	}
	if panicked != nil {
		t.Errorf("F13: the stream pool panicked while the session was closing: %v", panicked)
	}
}
